"""
C13 — assembler symbol discipline and incremental assembly.

Real code: Assembler (symbol pre-pass, lookup, assemble() called several times, finalize) and
RewritingContext (patch ids as temporary-symbol suffixes).
Model: lean/GtirbVerif/Model/Asm/Streamer.lean (precreate, resolveRef/resolveTarget,
assembleChunks).  Theorems: Props/C13.lean.
"""
import json

import asm_engine as AE

try:
    from props import c12
except ImportError:  # run from inside props/
    import c12
from common import ask_driver

GEN = []
SOURCES = ["assembler/assembler.py", "rewriting.py"]
RULE = (
    "(1) symbol discipline: the C12 token generator over all eight configurations, plus a malformed stream - a label "
    "defined twice, a label named like a module symbol, references to unknown names with undefined symbols allowed "
    "and not - each assembled as one text or as 2-4 consecutive chunks; checked: module names bind to the module's "
    "own symbol object, unknown names raise UndefSymbolError or give exactly one proxy-backed symbol per name, "
    "redefinition raises MultipleDefinitionsError, no two symbols share a name; (2) chunking: every generated text "
    "without cross-chunk forward references is assembled whole and in chunks (cuts after terminators, inside data "
    "runs, between a label and its instruction) and the two Results compared, both also against the Lean model run "
    "on the recorded events; (3) temporary labels: a patch with temporary labels, own-label jumps and extern "
    "references inserted 1-6 times (same and different positions) through RewritingContext; afterwards all symbol "
    "names are distinct, every copy's jump refers to and reaches its own copy's label, and the names are key + '_' + "
    "patch id"
)
ASSUMPTIONS = [
    "a chunk list is in scope of the chunking claim only if no chunk mentions a label defined in a later chunk (the property's own proviso); other chunk lists are run for crashes and model agreement only",
    "MIPS32 chunks each start with .set noreorder and CFI directives are left out of chunked texts: a CFI procedure or an assembler mode cannot span two parser instances, which is LLVM's doing and not the assembler class's",
    "a text the assembler refuses for another reason first (unsupported expression, jump to data) is not judged for the error class",
]
TRUSTED = ["the recorder and canonicalisation of harness/asm_engine.py", "gtirb_test_helpers and the harness's module builder"]

SIG_CHUNK_SECTION = "chunk-boundary-outside-.text-restarts-in-.text"


# ---------------------------------------------------------------------------
# generation
# ---------------------------------------------------------------------------
def mentions(tok):
    if tok["t"] == "leb":
        return [tok["a"], tok["b"]]
    if "to" in tok:
        return [tok["to"]]
    return []


def gen_case(rng):
    cfg = rng.choice(list(AE.CONFIGS))
    allow_undef = rng.random() < 0.6
    toks = c12.gen_tokens(rng, cfg, rng.choice([4, 6, 10, 16, 24]), True)
    toks = [t for t in toks if t["t"] not in ("cfi", "raw")]
    labels = [t["name"] for t in toks if t["t"] == "label"]
    mal = None
    r = rng.random()
    if r < 0.12 and labels:
        mal = "duplicate-label"
        toks.insert(rng.randint(0, len(toks)), {"t": "label", "name": rng.choice(labels)})
    elif r < 0.2:
        mal = "label-named-like-module-symbol"
        toks.insert(rng.randint(0, len(toks)), {"t": "label", "name": rng.choice(["modfn", "moddata", "modproxy", AE.temp_prefix(cfg) + "mod", AE.temp_prefix(cfg) + "mod"])})
    elif r < 0.3:
        # drop a label definition: its uses become references to an unknown name
        if labels:
            mal = "dropped-definition"
            victim = rng.choice(labels)
            toks = [t for t in toks if not (t["t"] == "label" and t["name"] == victim)]
    ncuts = rng.choice([0, 1, 1, 2, 3])
    cuts = sorted(set(rng.randint(1, max(1, len(toks) - 1)) for _ in range(ncuts))) if len(toks) > 1 else []
    return {"cfg": cfg, "tokens": toks, "cuts": cuts, "allow_undef": allow_undef, "triv": rng.random() < 0.3, "mal": mal,
            "suffix": rng.choice([None, "_7", "_12"])}


def chunks_of(case):
    toks, cuts = case["tokens"], [0] + list(case["cuts"]) + [len(case["tokens"])]
    out = [toks[a:b] for a, b in zip(cuts, cuts[1:])]
    return [c for c in out if c]


def render_chunk(tokens, cfg):
    pre = ".set noreorder\n" if AE.family(cfg) == "mips" else ""
    return pre + AE.render(tokens, cfg)


def forward_refs(chunks):
    """does some chunk mention a label that a later chunk defines?"""
    later = set()
    for c in reversed(chunks):
        if any(n in later for t in c for n in mentions(t)):
            return True
        later |= {t["name"] for t in c if t["t"] == "label"}
    return False


def section_at_cuts(case):
    """the section in force at each cut of the whole text"""
    cur, out, cuts = ".text", [], set(case["cuts"])
    for i, t in enumerate(case["tokens"]):
        if i in cuts:
            out.append(cur)
        if t["t"] == "section":
            cur = t["name"]
    return out


# ---------------------------------------------------------------------------
# campaign 1 + 2
# ---------------------------------------------------------------------------
def analyse_names(case, chunks):
    """what the text says about names, chunk by chunk"""
    defined, dup, shadows = set(), None, None
    for ci, c in enumerate(chunks):
        for t in c:
            if t["t"] == "label":
                if t["name"] in defined and dup is None:
                    dup = (ci, t["name"])
                if t["name"] in AE.module_syms(case["cfg"]) and shadows is None:
                    shadows = (ci, t["name"])
                defined.add(t["name"])
    unknown = []
    seen = set()
    for ci, c in enumerate(chunks):
        seen |= {t["name"] for t in c if t["t"] == "label"}
        for t in c:
            for n in mentions(t):
                if n not in seen and n not in AE.module_syms(case["cfg"]) and n not in [u[1] for u in unknown]:
                    unknown.append((ci, n))
    # a label defined in a later chunk after the name was first used as unknown
    late = [(ci, n) for ci, n in unknown if n in defined]
    return dup, shadows, unknown, late


def result_facts(ctx, case, real, tag):
    """direct oracles on a successful Result"""
    import gtirb

    res, keys = real["result"], real["keys"]
    names = [s.name for s in res.symbols]
    if len(names) != len(set(names)):
        ctx.violation("C13:two-symbols-one-name", "%s: the Result holds two symbols with one name: %s" % (tag, sorted(n for n in names if names.count(n) > 1)[:3]), case)
    modsyms = real["modsyms"]
    for s in res.symbols:
        if s.name in modsyms:
            ctx.violation("C13:module-name-redefined", "%s: the Result defines a symbol named like the module's %s" % (tag, s.name), case)
    by_name = {}
    for sect in res.sections.values():
        for off, e in sect.symbolic_expressions.items():
            for sym in e.symbols:
                by_name.setdefault(sym.name, set()).add(id(sym))
                if sym.name in modsyms and sym is not modsyms[sym.name]:
                    ctx.violation("C13:module-symbol-not-bound", "%s: an expression at %s+%d names %s but not the module's symbol object" % (tag, sect.name, off, sym.name), case)
                if sym.name not in modsyms and not any(sym is y for y in res.symbols):
                    ctx.violation("C13:expression-symbol-outside-result", "%s: an expression names %s, which is neither the module's nor the Result's" % (tag, sym.name), case)
    for n, ids in by_name.items():
        if len(ids) > 1:
            ctx.violation("C13:one-name-several-objects", "%s: expressions use %d different symbol objects named %s" % (tag, len(ids), n), case)
    return by_name


def check_case(ctx, case, pending):
    cfg = case["cfg"]
    chunks = chunks_of(case)
    ctx.case(case, sample=case if len(ctx.samples) < 3 else None, nontrivial=len(case["tokens"]) > 3)
    ctx.count("cfg:" + cfg)
    ctx.count("chunks:%d" % len(chunks))
    if case.get("mal"):
        ctx.count("malformed:" + case["mal"])
    try:
        texts = [render_chunk(c, cfg) for c in chunks]
        whole_text = render_chunk(case["tokens"], cfg)
    except ValueError:
        ctx.count("unrenderable")
        return
    real = AE.run_real(cfg, texts, allow_undef=case["allow_undef"], triv=case["triv"], suffix=case.get("suffix"))
    dup, shadows, unknown, late = analyse_names(case, chunks)
    if case.get("suffix"):
        ctx.count("with-suffix")
    cls = real["err_class"]
    if cls and cls not in c12.ASSEMBLER_ERRORS:
        ctx.violation("C13:crash:" + cls, "the assembler raised %s (%s); chunks:\n%s" % (cls, (real["err"] or "")[:100], "\n--\n".join(texts)), case)
    # (c) redefinition
    if dup or shadows or late:
        ctx.count("expect:redefinition")
        if not cls:
            ctx.violation("C13:redefinition-accepted", "a name is defined twice (%s) yet assembly succeeded; chunks:\n%s" % (dup or shadows or late, "\n--\n".join(texts)), case)
        first = min(x[0] for x in (dup, shadows) if x) if (dup or shadows) else None
        if first == 0 and cls and cls != "MultipleDefinitionsError" and cls != "AsmSyntaxError":
            ctx.violation("C13:redefinition-wrong-error", "the first chunk redefines %s but the error is %s" % (dup or shadows, cls), case)
    # (b) unknown names
    elif unknown and not case["allow_undef"]:
        ctx.count("expect:undef-error")
        if not cls:
            ctx.violation("C13:unknown-name-accepted", "names %s are unknown and undefined symbols are not allowed, yet assembly succeeded" % ([n for _, n in unknown][:3],), case)
        elif cls not in ("UndefSymbolError", "UnsupportedAssemblyError", "AsmSyntaxError"):
            ctx.violation("C13:unknown-name-wrong-error", "unknown names %s gave %s" % ([n for _, n in unknown][:3], cls), case)
        elif cls == "UndefSymbolError":
            ctx.count("undef-error")
    elif cls in ("UndefSymbolError", "MultipleDefinitionsError"):
        ctx.violation("C13:spurious-" + cls, "%s (%s) although every name is defined once and known; chunks:\n%s" % (cls, (real["err"] or "")[:80], "\n--\n".join(texts)), case)
    if real["result"] is not None and case.get("suffix"):
        tp = AE.temp_prefix(cfg)
        for key, sym in real["keys"].items():
            is_label = any(t["t"] == "label" and t["name"] == key for t in case["tokens"])
            want = key + case["suffix"] if (is_label and key.startswith(tp)) else key
            if sym.name != want:
                ctx.violation("C13:suffix", "symbol for %s is named %s, expected %s (suffix %s on temporary labels only)" % (key, sym.name, want, case["suffix"]), case)
    if real["result"] is not None:
        ctx.count("assembled")
        result_facts(ctx, case, real, "chunked" if len(chunks) > 1 else "whole")
        if case["allow_undef"]:
            import gtirb

            for _, n in unknown:
                ss = [s for s in real["result"].symbols if s.name == n]
                if len(ss) != 1 or not isinstance(ss[0].referent, gtirb.ProxyBlock) or not any(ss[0].referent is p for p in real["result"].proxies):
                    ctx.violation("C13:undefined-name-not-one-proxy-symbol", "unknown name %s: %d symbols in the Result, referent %s" % (n, len(ss), type(ss[0].referent).__name__ if ss else None), case)
                ctx.count("undef-symbols")
    # model agreement on the chunked run
    req = AE.model_request(cfg, real, case["allow_undef"], case["triv"])
    if req is not None and cls != "AsmSyntaxError":
        pending.append((case, real, req, "\n--\n".join(texts)))
    # (e) chunked = whole
    if len(chunks) > 1:
        if forward_refs(chunks) or dup or shadows:
            ctx.count("chunking:out-of-scope")
            return
        whole = AE.run_real(cfg, [whole_text], allow_undef=case["allow_undef"], triv=case["triv"], suffix=case.get("suffix"))
        ctx.count("chunking:compared")
        outside = [s for s in section_at_cuts(case) if s != ".text"]
        same = None
        if (whole["result"] is None) != (real["result"] is None):
            same = "whole %s, chunked %s" % (whole["err_class"] or "assembles", cls or "assembles")
        elif whole["result"] is not None:
            a, b = AE.canon_result(whole), AE.canon_result(real)
            da = {s.name: bytes(s.data) for s in whole["result"].sections.values()}
            db = {s.name: bytes(s.data) for s in real["result"].sections.values()}
            na = sorted(s.name for s in whole["result"].symbols)
            nb = sorted(s.name for s in real["result"].symbols)
            if a != b or da != db or na != nb:
                import irdump

                same = "Results differ at %s" % (irdump.diff_paths(a, b)[:3] or "bytes/names",)
        elif whole["err_class"] != cls:
            same = "whole raises %s, chunked raises %s" % (whole["err_class"], cls)
        if same:
            if outside:
                ctx.violation(SIG_CHUNK_SECTION, "a chunk ends in %s and the next one starts in .text again: %s" % (outside[0], same), case)
            else:
                ctx.violation("C13:chunked-differs-from-whole", "%s; chunks:\n%s" % (same, "\n--\n".join(texts)), case)


def flush(ctx, pending):
    if not pending or not ctx.driver_ok:
        pending.clear()
        return
    try:
        ans = ask_driver([p[2] for p in pending])
    except Exception as e:  # noqa: BLE001
        ctx.driver_ok = False
        ctx.notes.append("driver failure: %r" % (e,))
        pending.clear()
        return
    for (case, real, _, text), a in zip(pending, ans):
        ctx.count("corr")
        if real["err_class"]:
            cls = (a.get("err") or "").split(":")[0]
            if cls != real["err_class"]:
                ctx.mismatch("the code raises %s (%s), the model gives %s; chunks:\n%s" % (real["err_class"], (real["err"] or "")[:80], json.dumps(a)[:160], text), case)
        elif "err" in a:
            ctx.mismatch("the code assembles, the model raises %s; chunks:\n%s" % (a["err"], text), case)
        else:
            r, m = AE.canon_result(real), AE.canon_model(a)
            if r != m:
                import irdump

                ctx.mismatch("Result differs between code and model at %s; chunks:\n%s" % (irdump.diff_paths(r, m)[:4], text), case)
    pending.clear()


# ---------------------------------------------------------------------------
# campaign 3: the same patch inserted N times through RewritingContext
# ---------------------------------------------------------------------------
PATCH_BODIES = [
    (".Lloop:\nnop\njne .Lloop\njmp .Lend\nnop\n.Lend:\nnop\n", [".Lloop", ".Lend"]),
    (".Lagain:\ncall ext_fn\njne .Lagain\n", [".Lagain"]),
    ("jmp .Lskip\n.byte 1, 2, 3\n.Lskip:\nleaq .Lskip(%rip), %rax\n", [".Lskip"]),
    (".La:\n.Lb:\nnop\njne .Lb\njne .La\n", [".La", ".Lb"]),
]
# labels the author numbered himself: .Lr and .Lr_2 - the second looks like the first with a suffix
NUMBERED = ("jne .Lr\nnop\n.Lr:\njne .Lr_2\nnop\n.Lr_2:\nnop\n", [".Lr", ".Lr_2"])
SIG_NUMBERED = "author-numbered-label-meets-the-suffixed-label-of-an-earlier-copy"


def gen_copies(rng):
    body = rng.randrange(len(PATCH_BODIES))
    nblocks = rng.randint(1, 4)
    n = rng.randint(1, 6)
    places = [[rng.randrange(nblocks), rng.choice([0, 1, 2, 3])] for _ in range(n)]
    return {"copies": True, "body": body, "nblocks": nblocks, "places": places, "second": rng.randrange(len(PATCH_BODIES)) if rng.random() < 0.4 else None,
            "functions": rng.randint(1, 3) if rng.random() < 0.4 else 0}


def check_copies(ctx, case):
    import logging

    import gtirb
    import gtirb_functions
    from gtirb_test_helpers import add_code_block, add_text_section, create_test_module

    import emodify
    from gtirb_rewriting import RewritingContext

    logging.disable(logging.CRITICAL)
    ctx.case(case, sample=case if len(ctx.samples) < 4 else None, nontrivial=True)
    ctx.count("copies:%d" % len(case["places"]))
    ir, m = create_test_module(gtirb.Module.FileFormat.ELF, gtirb.Module.ISA.X64, binary_type=["DYN"])
    _, bi = add_text_section(m, address=0x1000)
    blocks = [add_code_block(bi, b"\x90\x90\x90\xc3") for _ in range(case["nblocks"])]
    from gtirb_test_helpers import add_proxy_block, add_symbol

    add_symbol(m, "ext_fn", add_proxy_block(m))
    before = {s.name for s in m.symbols}
    rc = RewritingContext(m, gtirb_functions.Function.build_functions(m))
    bodies = [PATCH_BODIES[case["body"]]] + ([PATCH_BODIES[case["second"]]] if case.get("second") is not None else [])
    if case.get("numbered"):
        bodies = [NUMBERED]
    plan = []
    for k, (b, off) in enumerate(case["places"]):
        asm, temps = bodies[k % len(bodies)]
        plan.append((asm, temps))
        rc.insert_at(blocks[b], off, emodify.make_patch(asm))
    # the same patch as the body of inserted functions: those are assembled with suffixes of their own too
    for k in range(case.get("functions", 0)):
        asm, temps = bodies[0]
        plan.append((asm + "ret\n", temps))
        rc.register_insert_function("newfn%d" % k, emodify.make_patch(asm + "ret\n"))
    try:
        rc.apply()
    except Exception as e:  # noqa: BLE001
        if case.get("numbered") and len(plan) >= 3 and type(e).__name__ == "MultipleDefinitionsError":
            ctx.violation("C13:" + SIG_NUMBERED, "inserting a patch with the labels .Lr and .Lr_2 %d times raised %s: %s" % (len(plan), type(e).__name__, str(e)[:120]), case)
            return
        ctx.violation("C13:copies-raise", "inserting the patch %d times raised %s: %s" % (len(plan), type(e).__name__, str(e)[:120]), case)
        return
    names = [s.name for s in m.symbols]
    dups = sorted({n for n in names if names.count(n) > 1})
    if dups:
        ctx.violation("C13:copies-share-a-name", "after %d insertions the module has several symbols named %s" % (len(plan), dups[:3]), case)
    new = [s for s in m.symbols if s.name not in before]
    want = {}
    for asm, temps in plan:
        for t in temps:
            want[t] = want.get(t, 0) + 1
    for t, n in want.items():
        got = [s for s in new if s.name.startswith(t + "_") and s.name[len(t) + 1:].isdigit()]
        ctx.count("temp-symbols", len(got))
        if len(got) != n:
            ctx.violation("C13:temp-label-count", "%d copies define %s but the module has %d symbols %s_<id>: %s" % (n, t, len(got), t, sorted(s.name for s in new)[:8]), case)
        if any(s.name == t for s in m.symbols) and not case.get("numbered"):
            ctx.violation("C13:temp-label-without-suffix", "a symbol named %s (no suffix) exists" % t, case)
    # each copy's jump reaches, and names, a label of its own copy: the label with the same suffix
    by_interval = {}
    for blk in m.code_blocks:
        by_interval.setdefault(id(blk.byte_interval), []).append(blk)
    for blk in m.code_blocks:
        bi2 = blk.byte_interval
        for off, e in bi2.symbolic_expressions.items():
            if not (blk.offset <= off < blk.offset + blk.size) or not isinstance(e, gtirb.SymAddrConst):
                continue
            name = e.symbol.name
            if not name.startswith(".L"):
                continue
            # edges of this block that are branches must reach the referent of the named symbol
            targets = [ed.target for ed in blk.outgoing_edges if ed.label and ed.label.type == gtirb.Edge.Type.Branch]
            data = bytes(bi2.contents[blk.offset:blk.offset + blk.size])
            is_branch = off == blk.offset + blk.size - (1 if data[-2:-1] in (b"\x75", b"\xeb") else 4) and targets
            if is_branch:
                ctx.count("own-label-jumps")
                if not any(t is e.symbol.referent for t in targets):
                    ctx.violation("C13:jump-reaches-another-copy", "a jump naming %s has branch edges to %s, not to that symbol's block" % (name, [getattr(t, "address", None) for t in targets]), case)
    # suffix consistency inside one copy: labels that were defined by one copy carry one suffix, and a jump
    # between two labels of a copy stays inside the suffix
    for blk in m.code_blocks:
        bi2 = blk.byte_interval
        mine = {s.name.rsplit("_", 1)[1] for s in new if s.referent is blk and "_" in s.name and s.name.rsplit("_", 1)[1].isdigit()}
        if len(mine) > 1:
            ctx.violation("C13:two-copies-share-a-label-block", "block at %s carries temporary labels of copies %s" % (blk.address, sorted(mine)), case)


def check_extern(ctx, g):
    """get_or_insert_extern_symbol: a name the module has binds to the module's own symbol whatever it refers to; an
    unknown name gives one proxy-backed symbol, the same object on every call; and a patch that uses the name
    binds to that object"""
    import logging

    import gtirb
    import gtirb_functions
    from gtirb_test_helpers import add_code_block, add_data_block, add_proxy_block, add_symbol, add_text_section, create_test_module

    import emodify
    from gtirb_rewriting import RewritingContext

    logging.disable(logging.CRITICAL)
    ctx.case(g, sample=g if len(ctx.samples) < 5 else None, nontrivial=True)
    ctx.count("extern:" + g["kind"])
    ff = gtirb.Module.FileFormat.ELF
    ir, m = create_test_module(ff, gtirb.Module.ISA.X64, binary_type=["DYN"])
    _, bi = add_text_section(m, address=0x1000)
    code = add_code_block(bi, b"\x90\x90\xc3")
    data = add_data_block(bi, b"\x00" * 8)
    existing = None
    if g["kind"] == "code":
        existing = add_symbol(m, "log_event", add_code_block(bi, b"\xc3"))
    elif g["kind"] == "data":
        existing = add_symbol(m, "log_event", data)
    elif g["kind"] == "proxy":
        existing = add_symbol(m, "log_event", add_proxy_block(m))
    rc = RewritingContext(m, gtirb_functions.Function.build_functions(m))
    got = [rc.get_or_insert_extern_symbol("log_event", "libfoo.so") for _ in range(g["calls"])]
    if existing is not None and any(y is not existing for y in got):
        ctx.violation("C13:extern-does-not-bind-to-the-module-symbol", "the module defines log_event (%s) but get_or_insert_extern_symbol returned another symbol object" % g["kind"], g)
    if any(y is not got[0] for y in got):
        ctx.violation("C13:extern-created-twice", "two calls for one name returned two symbol objects", g)
    if g["kind"] != "data":
        rc.insert_at(code, g["off"], emodify.make_patch("call log_event"))
    try:
        rc.apply()
    except Exception as e:  # noqa: BLE001
        ctx.violation("C13:extern-raises", "apply() raised %s: %s" % (type(e).__name__, str(e)[:100]), g)
        return
    names = [y.name for y in m.symbols]
    if names.count("log_event") != 1:
        ctx.violation("C13:copies-share-a-name", "the module has %d symbols named log_event" % names.count("log_event"), g)
    for x in m.byte_intervals:
        for off, e in x.symbolic_expressions.items():
            for y in e.symbols:
                if y.name == "log_event" and y is not got[0]:
                    ctx.violation("C13:module-symbol-not-bound", "the patch's operand names log_event but not the symbol object the module holds", g)


def check_assign(ctx, g):
    """defining a name the module already has is a MultipleDefinitionsError, however the definition is written: a label,
    `name = value`, `.set name, value`, `.equ name, value`; a name the module does not have is accepted once"""
    import gtirb
    from gtirb_test_helpers import add_code_block, add_data_block, add_proxy_block, add_symbol, add_text_section, create_test_module

    from gtirb_rewriting.assembler import Assembler, MultipleDefinitionsError

    ctx.case(g, nontrivial=True)
    ctx.count("definition:" + g["form"])
    ir, m = create_test_module(gtirb.Module.FileFormat.ELF, gtirb.Module.ISA.X64, binary_type=["DYN"])
    _, bi = add_text_section(m, address=0x1000)
    ref = {"code": add_code_block(bi, b"\x90\xc3"), "data": add_data_block(bi, b"\x00" * 4), "proxy": add_proxy_block(m)}[g["holder"]]
    add_symbol(m, "taken", ref)
    name = "taken" if g["clash"] else "fresh_name"
    text = {"label": "nop\n%s:\nnop\n", "eq": "nop\n%s = 8\nnop\n", "set": "nop\n.set %s, 1\nnop\n", "equ": "nop\n.equ %s, 16\nnop\n"}[g["form"]] % name
    a = Assembler(m, temp_symbol_suffix="_7")
    try:
        a.assemble(text)
        res = a.finalize()
        err = None
    except MultipleDefinitionsError:
        err = "MultipleDefinitionsError"
    except Exception as e:  # noqa: BLE001
        err = type(e).__name__
    if g["clash"] and err != "MultipleDefinitionsError":
        ctx.violation("C13:existing-name-defined", "the module has a symbol `taken` (%s); the text defines it again with %r and the assembler answers %s"
                      % (g["holder"], text.splitlines()[1], err or "with a Result that holds a second symbol of that name"), g)
    if not g["clash"] and err is not None:
        ctx.violation("C13:fresh-name-refused", "defining the unused name with %r raised %s" % (text.splitlines()[1], err), g)
    if not g["clash"] and err is None and sum(1 for y in res.symbols if y.name == name) != 1:
        ctx.violation("C13:fresh-name-count", "defining the unused name once gives %d symbols of that name" % sum(1 for y in res.symbols if y.name == name), g)


def check_reuse(ctx, g):
    """one Assembler object used for several assemblies (assemble, finalize, assemble again): what it was constructed
    with - undefined symbols allowed or not, entry unreachable or not - holds for every one of them"""
    import gtirb
    from gtirb_test_helpers import add_code_block, add_text_section, create_test_module

    from gtirb_rewriting.assembler import Assembler, UndefSymbolError

    ctx.case(g, nontrivial=True)
    ctx.count("assembler-reuse")
    ir, m = create_test_module(gtirb.Module.FileFormat.ELF, gtirb.Module.ISA.X64, binary_type=["DYN"])
    _, bi = add_text_section(m, address=0x1000)
    add_code_block(bi, b"\x90\xc3")
    a = Assembler(m, allow_undef_symbols=g["allow"], trivially_unreachable=g["unreachable"])
    outcomes = []
    for k in range(g["rounds"]):
        try:
            a.assemble("nop\ncall mystery_%d\n" % k)
            res = a.finalize()
            proxies = [y for y in res.symbols if y.name == "mystery_%d" % k and isinstance(y.referent, gtirb.ProxyBlock)]
            outcomes.append("proxy" if len(proxies) == 1 else "no-proxy:%d" % len(proxies))
        except UndefSymbolError:
            outcomes.append("UndefSymbolError")
            try:
                a.finalize()
            except Exception:  # noqa: BLE001
                pass
        except Exception as e:  # noqa: BLE001
            outcomes.append(type(e).__name__)
    want = ["proxy" if g["allow"] else "UndefSymbolError"] * g["rounds"]
    if outcomes != want:
        ctx.violation("C13:assembler-reuse", "Assembler(allow_undef_symbols=%s, trivially_unreachable=%s) used %d times for `call <unknown name>`: %s, expected %s"
                      % (g["allow"], g["unreachable"], g["rounds"], outcomes, want), g)


def run(ctx):
    for k in range(ctx.budget(24, 200)):
        check_extern(ctx, {"extern": True, "kind": ["code", "data", "proxy", "none"][k % 4], "calls": 1 + k % 3, "off": k % 3})
    pending = []
    n = ctx.budget(1000, 25000)
    for i in range(n):
        check_case(ctx, gen_case(ctx.rng), pending)
        if len(pending) >= 400:
            flush(ctx, pending)
    flush(ctx, pending)
    for _ in range(ctx.budget(150, 3000)):
        check_copies(ctx, gen_copies(ctx.rng))
    # author-numbered labels: one or two copies; the third copy is the recorded finding
    for k in range(ctx.budget(12, 120)):
        n = 1 + k % 2
        check_copies(ctx, {"copies": True, "numbered": True, "body": 0, "nblocks": 2, "places": [[j % 2, [0, 1, 3][(k + j) % 3]] for j in range(n)], "second": None, "functions": 0})
    check_copies(ctx, {"copies": True, "numbered": True, "body": 0, "nblocks": 2, "places": [[0, 0], [0, 1], [1, 0]], "second": None, "functions": 0})
    for k in range(ctx.budget(32, 160)):
        check_assign(ctx, {"assign": True, "form": ["label", "eq", "set", "equ"][k % 4], "holder": ["code", "data", "proxy"][(k // 4) % 3], "clash": (k // 12) % 2 == 0 or k % 5 == 0})
    for k in range(ctx.budget(12, 60)):
        check_reuse(ctx, {"reuse": True, "allow": k % 2 == 0, "unreachable": (k // 2) % 2 == 0, "rounds": 2 + k % 3})


def replay(ctx, payload):
    case = payload.get("case", payload)
    if case.get("extern"):
        check_extern(ctx, case)
        return
    if case.get("copies"):
        check_copies(ctx, case)
        return
    if case.get("assign"):
        check_assign(ctx, case)
        return
    if case.get("reuse"):
        check_reuse(ctx, case)
        return
    pending = []
    check_case(ctx, case, pending)
    flush(ctx, pending)
