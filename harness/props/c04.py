"""
C04 — symbolic expressions and offset-keyed aux data travel with bytes.

Specification: Spec/ListingCheck.lean `checkAnnotations` on the real before/after dumps.
Model: Model/IR/*.lean (shiftKeys, splitOmaps/splitCfi, joinOmaps/joinCfi).  Theorems: Props/C04.lean.
"""
import listing_engine as LE

GEN = []
SOURCES = ["_modify/edit.py", "_modify/split.py", "_modify/join.py", "_modify/remove.py", "_auxdata_offsetmap.py",
           "_adt/offset_mapping.py", "intervalutils.py", "assembler/assembler.py"]
RULE = (
    "same generated modules and request sets as C01, carrying symbolic expressions in code (branch/call/lea operands) "
    "and data (.quad sym), symbolicExpressionSizes, comments and CFI directives keyed by block and by interval; per "
    "case the multiset of (table, section position, value) after apply() is compared with the image of the original "
    "multiset under the listing's byte map plus the patch's own expressions at patch position + offset; nothing may be "
    "keyed outside its element or by an element that left the module; no symbol name may be duplicated"
)
ASSUMPTIONS = [
    "annotation values are compared as strings (symbol names, addends, attribute lists, directive tuples)",
    "padding entries are generated only through the comments/padding tables the builder creates; cfiDirectives evaluation is C08",
]
TRUSTED = ["harness/emodify.py, harness/irdump.py"]


def run(ctx):
    LE.run(ctx, "C04", 1500, 40000)


def replay(ctx, payload):
    LE.replay(ctx, "C04", payload)
