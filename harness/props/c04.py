"""
C04 — symbolic expressions and offset-keyed aux data travel with bytes.

Specification: Spec/ListingCheck.lean `checkAnnotations` on the real before/after dumps.
Model: Model/IR/*.lean (shiftKeys, splitOmaps/splitCfi, joinOmaps/joinCfi).  Theorems: Props/C04.lean.
"""
import listing_engine as LE

GEN = []
SOURCES = ["_modify/edit.py", "_modify/split.py", "_modify/join.py", "_modify/remove.py", "_auxdata_offsetmap.py",
           "_adt/offset_mapping.py", "intervalutils.py", "assembler/assembler.py"]
RULE = (
    "same generated modules and request sets as C01, carrying symbolic expressions in code (branch/call/lea operands) "
    "and data (.quad sym), symbolicExpressionSizes, comments and CFI directives keyed by block and by interval; per "
    "case the multiset of (table, section position, value) after apply() is compared with the image of the original "
    "multiset under the listing's byte map plus the patch's own expressions at patch position + offset; nothing may be "
    "keyed outside its element or by an element that left the module; no symbol name may be duplicated; plus, for "
    "ARM64, MIPS32, IA32 and x86-64 Intel syntax, patches whose operand carries an addend and a target-specific "
    "variant (:lo12:, :got_lo12:, %hi, %lo, %got, @GOTPCREL) inserted by a real rewrite and judged against the text"
)
ASSUMPTIONS = [
    "annotation values are compared as strings (symbol names, addends, attribute lists, directive tuples)",
    "padding entries are generated only through the comments/padding tables the builder creates; the cfiDirectives table is judged both as a table (entries travel with their bytes) and, on a share of C08's cases, through the unwind state its directives give every instruction",
]
TRUSTED = ["harness/emodify.py, harness/irdump.py"]


# patches whose one symbolic operand carries a target-specific variant: (text, symbol, addend, attribute names)
ISA_PATCHES = {
    "arm64-elf": [
        ("add x1, x0, :lo12:table+8", "table", 8, ["LO12"]), ("add x1, x0, :lo12:table", "table", 0, ["LO12"]),
        ("ldr x2, [x0, :lo12:table+16]", "table", 16, ["LO12"]), ("ldr x0, [x0, :got_lo12:table]", "table", 0, ["GOT", "LO12"]),
        ("adrp x0, table", "table", 0, []), ("adrp x0, table+4096", "table", 4096, []), ("bl func", "func", 0, []),
        ("ldr x1, table+8", "table", 8, []),
    ],
    "mips32-elf": [
        ("lui $8, %hi(table+8)", "table", 8, ["HI"]), ("lui $8, %hi(table)", "table", 0, ["HI"]),
        ("addiu $8, $8, %lo(table+8)", "table", 8, ["LO"]), ("addiu $8, $8, %lo(table)", "table", 0, ["LO"]),
        ("lw $8, %got(table)($28)", "table", 0, ["GOT"]),
    ],
    "ia32-att-pe": [("movl $table+4, %eax", "table", 4, []), ("movl table, %eax", "table", 0, []), ("pushl $table", "table", 0, [])],
    "x64-intel-elf": [("lea rax, [rip + table + 8]", "table", 8, []), ("mov dword ptr [rip + table + 4], 7", "table", 4, []),
                      ("mov rax, qword ptr [rip + table@GOTPCREL]", "table", 0, ["GOT", "PCREL"])],
}


def gen_isa(rng):
    cfg = rng.choice(list(ISA_PATCHES))
    n = rng.randint(1, 4)
    return {"isa_case": True, "cfg": cfg, "nops": n, "at": rng.randint(0, n), "patch": rng.randrange(len(ISA_PATCHES[cfg])),
            "second": rng.randrange(len(ISA_PATCHES[cfg])) if rng.random() < 0.4 else None}


def check_isa(ctx, g):
    """other ISAs and syntaxes: the expression a patch's operand becomes - symbol, addend, attributes, position - after
    a real rewrite, against what the patch text says"""
    import logging

    import gtirb
    import gtirb_functions
    from gtirb_test_helpers import add_code_block, add_data_block, add_symbol, add_text_section, create_test_module

    import asm_engine as AE
    import emodify
    from gtirb_rewriting import Constraints, RewritingContext
    from gtirb_rewriting.assembly import X86Syntax

    logging.disable(logging.CRITICAL)
    c = AE.CONFIGS[g["cfg"]]
    ctx.case(g, sample=g if len(ctx.samples) < 4 else None, nontrivial=True)
    ctx.count("isa:" + g["cfg"])
    ir, m = create_test_module(getattr(gtirb.Module.FileFormat, c["ff"]), getattr(gtirb.Module.ISA, c["isa"]), binary_type=c["bt"])
    _, bi = add_text_section(m, address=0x1000)
    fam = AE.family(g["cfg"])
    m.byte_order = gtirb.Module.ByteOrder.Big if fam == "mips" else gtirb.Module.ByteOrder.Little
    nop = {"arm64": b"\x1f\x20\x03\xd5", "mips": b"\x00\x00\x00\x00", "ia32": b"\x90", "x64": b"\x90"}[fam]
    ret = {"arm64": b"\xc0\x03\x5f\xd6", "mips": b"\x03\xe0\x00\x08\x00\x00\x00\x00", "ia32": b"\xc3", "x64": b"\xc3"}[fam]
    blk = add_code_block(bi, nop * g["nops"] + ret)
    func = add_code_block(bi, ret)
    data = add_data_block(bi, b"\x00" * 32)
    add_symbol(m, "func", func)
    add_symbol(m, "table", data)
    before = {(id(x), off) for x in m.byte_intervals for off in x.symbolic_expressions}
    rc = RewritingContext(m, gtirb_functions.Function.build_functions(m))
    picks = [g["patch"]] + ([g["second"]] if g.get("second") is not None else [])
    cons = Constraints(x86_syntax=X86Syntax.INTEL) if c["syntax"] == "INTEL" else Constraints()
    for k in picks:
        rc.insert_at(blk, g["at"] * len(nop), emodify.make_patch(ISA_PATCHES[g["cfg"]][k][0], cons))
    try:
        rc.apply()
    except Exception as e:  # noqa: BLE001
        ctx.violation("C04:isa:raises", "%s: inserting %r raised %s: %s" % (g["cfg"], [ISA_PATCHES[g["cfg"]][k][0] for k in picks], type(e).__name__, str(e)[:100]), g)
        return
    got = []
    for x in m.byte_intervals:
        for off, e in sorted(x.symbolic_expressions.items()):
            if isinstance(e, gtirb.SymAddrConst):
                got.append([e.symbol.name, e.offset, sorted(a.name for a in e.attributes)])
    want = sorted([ISA_PATCHES[g["cfg"]][k][1], ISA_PATCHES[g["cfg"]][k][2], sorted(ISA_PATCHES[g["cfg"]][k][3])] for k in picks)
    if sorted(got) != want:
        ctx.violation("C04:isa:patch-operand", "%s: after inserting %r the module's expressions are %s, the text says %s"
                      % (g["cfg"], [ISA_PATCHES[g["cfg"]][k][0] for k in picks], sorted(got), want), g)


def kept_placeholder(rng):
    """a branch target in front of data (or at the end of the section) is deleted whole: it has to stay as an empty
    placeholder - and the comments that stood on its instructions have nothing left to stand on"""
    import emodify

    n = rng.randint(1, 3)
    text = [
        {"kind": "code", "func": 0, "entry": True, "insns": [["nop"]] * rng.randint(0, 2) + [[rng.choice(["jmp", "jcc"]), "A"]],
         "syms": [{"name": "W", "at_end": False}]},
        {"kind": "code", "func": 0, "insns": [["nop"]] * n + [["ret"]], "syms": [{"name": "A", "at_end": False}],
         "comments": sorted([k, "a%d" % k] for k in set(rng.randrange(n + 1) for _ in range(rng.randint(1, 3))))},
    ]
    if text[0]["insns"][-1][0] == "jcc":
        text.insert(1, {"kind": "code", "func": 0, "insns": [["ret"]], "syms": [{"name": "V", "at_end": False}]})
    if rng.random() < 0.6:
        text.append({"kind": "data", "bytes": [rng.randrange(256) for _ in range(rng.choice([2, 4]))], "syms": [{"name": "D", "at_end": False}],
                     "comments": [[0, "d0"]]})
    i = next(k for k, d in enumerate(text) if d["syms"][0]["name"] == "A")
    edits = [{"op": "delete", "block": i, "off": 0, "len": emodify.block_size(text[i])}]
    return {"isa": "X64", "ff": "ELF", "text": text, "externs": ["ext_a"], "edits": edits}


class _CfiCtx:
    """cfiDirectives is one of the offset-keyed tables: the CFI run of C08 (directives judged through the unwind state
    they give every instruction, procedures opened and closed once) is run here on a share of its cases; the two
    findings recorded for C08 stay C08's"""

    def __init__(self, ctx):
        self.__dict__["_c"] = ctx

    def __getattr__(self, k):
        return getattr(self._c, k)

    def __setattr__(self, k, v):
        setattr(self._c, k, v)

    def violation(self, sig, what, case):
        import common

        known = {f.get("sig") for f in common.load_known_findings().get("findings", []) if f.get("property") == "C08"}
        if sig in known:
            self._c.count("c08-recorded-finding-seen")
            return
        self._c.violation(sig.replace("C08:", "C04:cfi:", 1), what, dict(case, cfi_case=True) if isinstance(case, dict) else case)

    def mismatch(self, what, case):
        self._c.mismatch(what, dict(case, cfi_case=True) if isinstance(case, dict) else case)


def run_cfi(ctx, n):
    import emodify
    from props import c08

    cc = _CfiCtx(ctx)
    pending = []
    for k in range(n):
        if k % 10 == 0:
            case = c08.first_block_deleted(ctx.rng)
        else:
            case = c08.decorate(emodify.gen_case(ctx.rng), ctx.rng)
            if ctx.rng.random() < 0.12:
                case = c08.tail_patch(case, ctx.rng)
        ctx.count("cfi-directive-cases")
        c08.check_case(cc, case, pending)
    c08.flush(cc, pending)


def run(ctx):
    run_cfi(ctx, ctx.budget(400, 8000))
    camp = LE.Campaign(ctx, "C04")
    for _ in range(ctx.budget(25, 500)):
        ctx.count("kept-placeholder")
        camp.add(kept_placeholder(ctx.rng))
    camp.flush()
    LE.run(ctx, "C04", 1500, 40000)
    for _ in range(ctx.budget(120, 3000)):
        check_isa(ctx, gen_isa(ctx.rng))


def replay(ctx, payload):
    case = payload.get("case", payload)
    if isinstance(case, dict) and case.get("cfi_case"):
        from props import c08

        pending = []
        c08.check_case(_CfiCtx(ctx), {k: v for k, v in case.items() if k != "cfi_case"}, pending)
        c08.flush(_CfiCtx(ctx), pending)
    elif isinstance(case, dict) and case.get("isa_case"):
        check_isa(ctx, case)
    else:
        LE.replay(ctx, "C04", payload)
