"""
C03 — the CFG equals the control flow of the edited listing, per instruction.

Specification: Spec/FlatCfg.lean `checkCfg`, evaluated by the driver on the real output module
and the instructions capstone (independent of gtirb_rewriting) finds in its bytes.
Model: the CFG steps of Model/IR/*.lean.  Theorems: Props/C03.lean.
"""
import listing_engine as LE

GEN = []
SOURCES = ["_modify/edges.py", "_modify/split.py", "_modify/join.py", "_modify/remove.py", "_modify/edit.py",
           "assembler/assembler.py", "rewriting.py"]
RULE = (
    "same generated modules and request sets as C01; the input CFG is built from the code (fallthrough between "
    "adjacent code blocks unless the block ends in jmp/ret, branch/call edges to the operand's referent, return "
    "edges from every returning block of a function to the return sites of the calls of that function, a proxy "
    "when there are none) and is itself checked against the specification before use; patches contain ordinary "
    "instructions, direct jumps and calls to module labels and externs, conditional jumps, returns and labels and "
    "land at any instruction boundary (start, middle, before and after the terminator); deletions and replacements "
    "remove terminators, call sites, callees and whole blocks. Per case the output CFG is compared rule by rule "
    "with the control flow of the decoded output bytes; every recorded insert/delete is replayed on the Lean model"
    "; one case in six may leave code running into data or off its section: for those only the closure clause (no edge starts or ends outside the module) is judged"
)
ASSUMPTIONS = [
    "alignment padding blocks that join_byte_intervals adds (nops only, no edge, no symbol) are transparent, like an .align directive of the listing",
    "retarget_to_proxy redirects the control flow into the deleted block to its fresh proxy (documented); a fallthrough edge to that proxy is accepted, and when the deleted block was the return site of a call the callee's return edge to that same proxy is accepted; a block that runs off the end of the code may fall through to a proxy",
    "requests that leave code running off into data or the end of the section (the terminator of the last code block before data is deleted, or code that can fall through is appended there) are outside the property's domain (modules whose CFG is consistent with their code) and are not judged",
    "return-edge exactness has three recorded findings (known_findings.json), recognised on the request set: a patch containing a return inserted into a function, a call whose target block is wholly deleted, a wholly deleted block that called its own function",
]
TRUSTED = ["harness/emodify.py (builder of the input CFG, capstone decoding of the output), harness/irdump.py"]


def run(ctx):
    LE.run(ctx, "C03", 1500, 40000)


def replay(ctx, payload):
    LE.replay(ctx, "C03", payload)
