"""
C16 — patch prologue/epilogue make the patch transparent.

Real code: ABI._allocate_patch_registers and the _create_prologue_and_epilogue
of every ABI in abi._ABIS. The emitted assembly text is parsed into the
abstract instruction set of lean/GtirbVerif/Model/Abi/Machine.lean, compared
with the Lean generator (correspondence) and *executed* on the Lean machine
from several initial states with a hostile body (specification oracle).
"""
import itertools
import re

from common import ask_driver

GEN = ["abi_full"]
SOURCES = ["abi.py", "assembly.py", "rewriting.py"]
RULE = (
    "per ABI: constraints = subsets of clobbered registers (exhaustive for IA32, sampled elsewhere, register "
    "names given through random sub-register aliases and cases) x clobbers_flags x align_stack x "
    "preserve_caller_saved_registers x scratch counts 0..N+1 x reads_registers subsets x leaf/non-leaf; all "
    "single-feature and pairwise combinations first, then seeded combinations; each generated wrapper is run on "
    "the abstract machine from stack pointers of every alignment class mod 16 with a body that trashes all "
    "registers, the flags and everything below its stack pointer. Distinct by (ABI, constraints, leaf); "
    "non-trivial when the prologue is non-empty"
    "; leaf determination also for code that belongs to no function behind a calling function, and for a block shared by a leaf and a calling function (recorded finding)"
)
ASSUMPTIONS = [
    "text -> abstract instruction: parsed by the harness from the generator's own snippets (unknown text is a disagreement, never silently skipped); LLVM's encoding of those mnemonics is not modelled",
    "patch body: leaves sp where it found it and does not touch cells at or above its entry sp (frame condition of the theorem)",
    "MIPS32: `$sp` is never declared clobbered by a patch",
]

ABIS = ["_X86_64_ELF", "_X86_64_PE", "_IA32_PE", "_ARM64_ELF", "_MIPS32_ELF"]


def _abi_objs():
    from gtirb_rewriting import abi as A

    return {type(o).__name__: o for o in A._ABIS.values()}


def parse_snippets(snips, fam):
    """Assembly text of the generator -> abstract instructions."""
    out = []
    for sn in snips:
        for line in sn.code.strip().splitlines():
            t = " ".join(line.strip().split())
            if not t:
                continue
            out.append(parse_line(t, fam))
    return out


def parse_line(t, fam):
    m = re.fullmatch(r"push[ql]? %(\w+)", t)
    if m:
        return ["push", m.group(1)]
    m = re.fullmatch(r"pop[ql]? %(\w+)", t)
    if m:
        return ["pop", m.group(1)]
    if t in ("pushfq", "pushfd"):
        return ["pushf"]
    if t in ("popfq", "popfd"):
        return ["popf"]
    m = re.fullmatch(r"lea[ql]? ([+-]?(?:0x)?[0-9a-fA-F]+)\(%[re]sp\), %[re]sp", t)
    if m:
        return ["lea", int(m.group(1), 0)]
    m = re.fullmatch(r"mov[ql]? %[re]sp, %(\w+)", t)
    if m:
        return ["movSpTo", m.group(1)]
    m = re.fullmatch(r"mov[ql]? %(\w+), %[re]sp", t)
    if m:
        return ["movToSp", m.group(1)]
    m = re.fullmatch(r"and[ql]? \$-((?:0x)?[0-9a-fA-F]+), %[re]sp", t)
    if m:
        return ["andSp", int(m.group(1), 0)]
    m = re.fullmatch(r"stp (\w+), (\w+), \[sp, #-16\]!", t)
    if m:
        return ["stp", m.group(1), m.group(2)]
    m = re.fullmatch(r"ldp (\w+), (\w+), \[sp\], #16", t)
    if m:
        return ["ldp", m.group(1), m.group(2)]
    m = re.fullmatch(r"str (\w+), \[sp, #-16\]!", t)
    if m:
        return ["strPre", m.group(1)]
    m = re.fullmatch(r"ldr (\w+), \[sp\], #16", t)
    if m:
        return ["ldrPost", m.group(1)]
    m = re.fullmatch(r"mrs (\w+), nzcv", t)
    if m:
        return ["mrs", m.group(1)]
    m = re.fullmatch(r"msr nzcv, (\w+)", t)
    if m:
        return ["msr", m.group(1)]
    m = re.fullmatch(r"addiu \$sp, \$sp, (-?\d+)", t)
    if m:
        return ["addiuSp", int(m.group(1))]
    m = re.fullmatch(r"sw \$(\w+), (-?\d+)\(\$sp\)", t)
    if m:
        return ["sw", m.group(1), int(m.group(2))]
    m = re.fullmatch(r"lw \$(\w+), (-?\d+)\(\$sp\)", t)
    if m:
        return ["lw", m.group(1), int(m.group(2))]
    return ["UNPARSED", t]


def _exc(e):
    for k in (KeyError, ValueError, IndexError, NotImplementedError, AssertionError):
        if isinstance(e, k):
            return k.__name__
    return "Other:" + type(e).__name__


def run_impl(abi, case):
    from gtirb_rewriting.assembly import Constraints

    c = Constraints(
        clobbers_flags=case["flags"],
        clobbers_registers=set(case["clobbers"]),
        scratch_registers=case["scratch"],
        reads_registers=set(case["reads"]),
        align_stack=case["align"],
        preserve_caller_saved_registers=case["preserve"],
    )
    out = {}
    try:
        regs = abi._allocate_patch_registers(c)
    except Exception as e:  # noqa: BLE001
        out["alloc_err"] = _exc(e)
        # is the refusal justified?  Every name is a register and the pool - the ABI's scratch registers that the
        # patch neither clobbers nor reads - holds as many registers as the patch asks for: nothing to refuse
        try:
            named = {abi.get_register(r).name for r in list(case["clobbers"]) + list(case["reads"])}
            pool = [r.name for r in abi._scratch_registers() if r.name not in named]
            out["refusal_unjustified"] = case["scratch"] <= len(pool)
        except KeyError:
            out["refusal_unjustified"] = False
        return out
    # the patch gets as many scratch registers as it asked for, all different, none of them one it reads or clobbers
    got = [r.name for r in regs.scratch_registers]
    named = set()
    for r in list(case["clobbers"]) + list(case["reads"]):
        try:
            named.add(abi.get_register(r).name)
        except KeyError:
            pass
    if len(got) != case["scratch"] or len(set(got)) != len(got) or set(got) & named:
        out["short_scratch"] = "asked for %d scratch registers (reads %s, clobbers %s), got %s" % (case["scratch"], sorted(case["reads"]), sorted(case["clobbers"]), got)
    out["alloc"] = {
        "clobbered": [r.name for r in regs.clobbered_registers],
        "scratch": [r.name for r in regs.scratch_registers],
        "available": [r.name for r in regs.available_registers],
    }
    # what the property says must come back: every register the patch declared clobbered, got as scratch, or
    # asked to preserve as caller-saved - computed from the request, not from the allocation's own report
    want = []
    for r in case["clobbers"]:
        try:
            want.append(abi.get_register(r).name)
        except KeyError:
            pass
    want += out["alloc"]["scratch"]
    if case["preserve"]:
        want += [r.name for r in abi.caller_saved_registers()]
    declared = sorted(set(want) | set(out["alloc"]["clobbered"]))
    reads = set()
    for r in case["reads"]:
        try:
            reads.add(abi.get_register(r).name)
        except KeyError:
            pass
    out["read_scratch"] = sorted(reads & set(out["alloc"]["scratch"]))
    try:
        pro, epi, adj = abi._create_prologue_and_epilogue(c, regs, case["leaf"])
        pro = list(pro)
        epi = list(epi)
    except Exception as e:  # noqa: BLE001
        out["gen_err"] = _exc(e)
        return out
    fam = None
    out["pre"] = parse_snippets(pro, fam)
    out["post"] = parse_snippets(epi, fam)
    out["adj"] = adj
    out["declared"] = declared
    return out


def make_cases(ctx, abiname, abi):
    rng = ctx.rng
    allregs = [r.name for r in abi.all_registers()]
    aliases = sorted(abi._register_map)
    scratchn = len(abi._scratch_registers())

    def alias_of(reg):
        names = [a for a, r in abi._register_map.items() if r.name == reg]
        n = rng.choice(names)
        return n.upper() if rng.random() < 0.3 else n

    base = {"flags": False, "clobbers": [], "scratch": 0, "reads": [], "align": False, "preserve": False, "leaf": False}
    feats = []
    feats.append(("flags", True))
    feats.append(("align", True))
    feats.append(("preserve", True))
    feats.append(("leaf", True))
    for n in (1, 2, scratchn, scratchn + 1):
        feats.append(("scratch", n))
    feats.append(("clobbers", [allregs[0]]))
    feats.append(("clobbers", allregs[:3]))
    feats.append(("clobbers", list(allregs)))
    feats.append(("reads", [allregs[1]]))
    feats.append(("clobbers", ["nosuchreg"]))
    cases = [dict(base)]
    for k, v in feats:
        c = dict(base)
        c[k] = v
        cases.append(c)
    for (k1, v1), (k2, v2) in itertools.combinations(feats, 2):
        if k1 == k2:
            continue
        c = dict(base)
        c[k1] = v1
        c[k2] = v2
        cases.append(c)
    if abiname == "_IA32_PE":
        for bits in range(64):
            regs = [allregs[i] for i in range(6) if bits >> i & 1]
            for flags, align, leaf in itertools.product((False, True), repeat=3):
                c = dict(base)
                c.update(clobbers=regs, flags=flags, align=align, leaf=leaf)
                cases.append(c)
    for _ in range(ctx.budget(250, 8000)):
        k = rng.choice([0, 1, 2, 3, 5, len(allregs)])
        regs = rng.sample(allregs, min(k, len(allregs)))
        reads = rng.sample(allregs, rng.choice([0, 0, 0, 1, 2]))
        c = {
            "flags": rng.random() < 0.5,
            "clobbers": [alias_of(r) for r in regs],
            "scratch": rng.choice([0, 0, 1, 2, 3, scratchn // 2, scratchn, scratchn + 1]),
            "reads": [alias_of(r) for r in reads],
            "align": rng.random() < 0.3,
            "preserve": rng.random() < 0.3,
            "leaf": rng.random() < 0.5,
        }
        cases.append(c)
    return cases


SPS = [0x7FFF0000 + d for d in (0, 1, 4, 8, 12, 15)] + [0x7FFF0000 - 16 * 5]


SIG_SHARED_LEAF = "block-shared-with-a-leaf-function-is-treated-as-the-non-leaf-functions"


def check_leaf(ctx, g):
    """which functions count as 'may be a leaf' (rewriting.py, not abi.py): a function without a Call edge - whatever
    else it has: syscalls, indirect jumps, returns - may have live data below its stack pointer, so a patch that
    pushes must first step over the red zone on x86-64 ELF"""
    import logging

    import capstone
    import gtirb
    import gtirb_functions
    from gtirb_test_helpers import add_code_block, add_edge, add_function, add_proxy_block, add_text_section, create_test_module

    from gtirb_rewriting import Constraints, Patch, RewritingContext, patch_constraints

    logging.disable(logging.CRITICAL)
    ctx.case(g, sample=g if len(ctx.samples) < 8 else None, nontrivial=True)
    ctx.count("leaf:" + g["kind"])
    ir, m = create_test_module(gtirb.Module.FileFormat.ELF, gtirb.Module.ISA.X64, binary_type=["DYN"])
    _, bi = add_text_section(m, address=0x1000)
    ET = gtirb.Edge.Type
    if g["kind"] == "syscall":
        b1 = add_code_block(bi, b"\xb8\x27\x00\x00\x00\x0f\x05")        # mov eax, 39; syscall
        b2 = add_code_block(bi, b"\xc3")
        add_edge(ir.cfg, b1, add_proxy_block(m), ET.Syscall)
        add_edge(ir.cfg, b1, b2, ET.Fallthrough)
        blocks = [b1, b2]
    elif g["kind"] == "ijmp":
        b1 = add_code_block(bi, b"\x90\xff\xe0")                           # nop; jmp rax
        add_edge(ir.cfg, b1, add_proxy_block(m), ET.Branch, direct=False)
        blocks = [b1]
    elif g["kind"] in ("plain", "debug-logger"):
        b1 = add_code_block(bi, b"\x90\x90")
        b2 = add_code_block(bi, b"\xc3")
        add_edge(ir.cfg, b1, b2, ET.Fallthrough)
        blocks = [b1, b2]
    else:                                                                  # a real call: not a leaf
        b1 = add_code_block(bi, b"\x90\xe8\x00\x00\x00\x00")
        b2 = add_code_block(bi, b"\xc3")
        add_edge(ir.cfg, b1, add_proxy_block(m), ET.Call)
        add_edge(ir.cfg, b1, b2, ET.Fallthrough)
        blocks = [b1, b2]
    add_edge(ir.cfg, blocks[-1], add_proxy_block(m), ET.Return) if g["kind"] != "ijmp" else None
    add_function(m, "f", blocks[0], set(blocks[1:]))
    target = blocks[0]
    funcs = None
    if g["kind"] == "shared":
        # a tail shared by a leaf function and one that calls (tail-merged code): the leaf reaches it with live data
        # below its stack pointer
        lb = add_code_block(bi, b"\x90\xeb\x00")                        # nop; jmp tail
        target = add_code_block(bi, b"\x90\xc3")
        add_edge(ir.cfg, lb, target, ET.Branch)
        add_edge(ir.cfg, target, add_proxy_block(m), ET.Return)
        m.aux_data["functionBlocks"].data[next(u for u, s_ in m.aux_data["functionNames"].data.items() if s_.name == "f")].add(target)
        leaf_uuid = add_function(m, "leaf", lb, {target})
        fs = {f.uuid: f for f in gtirb_functions.Function.build_functions(m)}
        funcs = [fs[leaf_uuid]] + [f for u, f in fs.items() if u != leaf_uuid]
    if g["kind"] == "orphan":
        # code that belongs to no function, right behind a function that calls: nothing says it is not a leaf
        target = add_code_block(bi, b"\x90\xc3")
        add_edge(ir.cfg, target, add_proxy_block(m), ET.Return)

    if g["kind"] == "same-patch":
        # one Patch object inserted first into a function that calls, then into a leaf function (a scope-wide patch):
        # the frame built for the first insertion is not the frame of the second
        target = add_code_block(bi, b"\x90\xc3")
        add_edge(ir.cfg, target, add_proxy_block(m), ET.Return)
        add_function(m, "leaf2", target)

    @patch_constraints(clobbers_registers={"rax"})
    def p(ictx):
        return "movl $%d, %%eax" % 0x5a5a5a

    the_patch = Patch.from_function(p)
    if g["kind"] == "explicit":
        # constraints handed to Patch.from_function win over the decorator's
        @patch_constraints()
        def q(ictx):
            return "movl $%d, %%eax" % 0x5a5a5a

        the_patch = Patch.from_function(q, Constraints(clobbers_registers={"rax"}))
    if g["kind"] == "debug-logger":
        # a context whose logger is enabled for DEBUG (what a driver run with -vv hands over): logging is an observer
        logging.disable(logging.NOTSET)
        dbg = logging.getLogger("verif.c16.debug")
        dbg.setLevel(logging.DEBUG)
        dbg.propagate = False
        if not dbg.handlers:
            dbg.addHandler(logging.NullHandler())
        rc = RewritingContext(m, gtirb_functions.Function.build_functions(m), logger=dbg)
    else:
        rc = RewritingContext(m, funcs if funcs is not None else gtirb_functions.Function.build_functions(m))
    if g["kind"] == "orphan":
        # the function in front is visited first and gets a patch too
        rc.insert_at(blocks[0], 0, Patch.from_function(patch_constraints()(lambda ictx: "nop")))
    if g["kind"] == "same-patch":
        rc.insert_at(blocks[0], 0, the_patch)
    rc.insert_at(target, 0, the_patch)
    try:
        rc.apply()
    finally:
        logging.disable(logging.CRITICAL)
    text = b"".join(bytes(x.contents) for x in sorted(m.byte_intervals, key=lambda x: x.address))
    md = capstone.Cs(capstone.CS_ARCH_X86, capstone.CS_MODE_64)
    ins = [(i.mnemonic, i.op_str) for i in md.disasm(text, 0x1000)]
    if g["kind"] == "same-patch":
        # look at the second insertion only (the leaf function behind the first one)
        cut = len(ins) - 1 - next(k for k, (mn, op) in enumerate(reversed(ins)) if mn == "mov" and "0x5a5a5a" in op)
        start = max(k for k in range(cut) if ins[k][0] == "ret") + 1
        ins = ins[start:]
    first_push = next((k for k, (mn, _) in enumerate(ins) if mn.startswith("push")), None)
    marker = next((k for k, (mn, op) in enumerate(ins) if mn == "mov" and "0x5a5a5a" in op), None)
    if g["kind"] == "explicit" and (first_push is None or marker is None or first_push > marker):
        ctx.violation("C16:explicit-constraints-ignored", "Patch.from_function(f, Constraints(clobbers_registers={'rax'})) on a decorated function: "
                      "rax is not saved around the patch: %s" % (ins[:6],), g)
        return
    if first_push is None or marker is None or first_push > marker:
        ctx.mismatch("the patch's prologue could not be located in %s" % (ins[:8],), g)
        return
    # what the prologue pushed is popped again behind the patch body, and the red-zone step is undone
    body_end = next((k for k in range(marker + 1, len(ins)) if ins[k][0] in ("ret", "jmp", "syscall", "call")), len(ins))
    pushes = sum(1 for mn, _ in ins[:marker] if mn.startswith("push"))
    pops = sum(1 for mn, _ in ins[marker + 1:body_end] if mn.startswith("pop"))
    down = sum(1 for mn, op in ins[:marker] if mn == "lea" and "rsp" in op and "- 0x80" in op)
    up = sum(1 for mn, op in ins[marker + 1:body_end] if mn == "lea" and "rsp" in op and "+ 0x80" in op)
    if g["kind"] in ("plain", "debug-logger", "syscall") and (pushes != pops or down != up):
        ctx.violation("C16:frame-not-undone", "%s: the prologue pushes %d registers and steps %d times over the red zone, behind the patch body %d are popped and %d steps undone: %s"
                      % (g["kind"], pushes, down, pops, up, ins[:10]), g)
    skipped = any(mn == "lea" and "rsp" in op and "- 0x80" in op for mn, op in ins[:first_push])
    if g["kind"] == "shared" and not skipped:
        ctx.violation("C16:" + SIG_SHARED_LEAF, "a block shared by a leaf function and a function that calls: the patch pushes at rsp-8 "
                      "without stepping over the red zone first: %s" % (ins[:8],), g)
    elif g["kind"] not in ("call", "explicit") and not skipped:
        ctx.violation("C16:leaf:red-zone", "function without a call (%s): the patch pushes at rsp-8 without stepping over the red zone first: %s" % (g["kind"], ins[:6]), g)


def run(ctx):
    for k in range(ctx.budget(18, 54)):
        check_leaf(ctx, {"leaf_case": True, "kind": ["syscall", "ijmp", "plain", "call", "orphan", "shared", "same-patch", "explicit", "debug-logger"][k % 9]})
    abis = _abi_objs()
    pending = []
    for abiname in ABIS:
        abi = abis.get(abiname)
        if abi is None:
            ctx.mismatch("ABI %s is no longer registered" % abiname, {"abi": abiname})
            continue
        for case in make_cases(ctx, abiname, abi):
            case = dict(case, abi=abiname)
            impl = run_impl(abi, case)
            ctx.case(("c16", abiname, sorted(case["clobbers"]), case["flags"], case["scratch"], sorted(case["reads"]), case["align"], case["preserve"], case["leaf"]),
                     sample=case if impl.get("pre") else None, nontrivial=bool(impl.get("pre")))
            ctx.count("abi:" + abiname)
            ctx.count("outcome:" + (impl.get("alloc_err") or impl.get("gen_err") or "ok"))
            req = {"op": "abi_gen", "abi": abiname, "leaf": case["leaf"], "constraints": {k: case[k] for k in ("flags", "clobbers", "scratch", "reads", "align", "preserve")}}
            pending.append((req, ("gen", case, impl)))
            if "pre" in impl:
                unp = [i for i in impl["pre"] + impl["post"] if i[0] == "UNPARSED"]
                if unp:
                    ctx.mismatch("generator emitted text outside the modelled vocabulary: %s" % unp[:3], case)
                else:
                    fam_x86 = abiname.startswith("_X86_64") or abiname.startswith("_IA32")
                    rz = abi.red_zone_size() if fam_x86 else 0
                    guard = rz if (case["leaf"] and rz) else 0
                    flags_claim = case["flags"] and not abiname.startswith("_MIPS")
                    req2 = {"op": "abi_check", "abi": abiname, "pre": impl["pre"], "post": impl["post"], "restore": impl["declared"],
                            "flags": flags_claim, "guard": guard, "align": case["align"], "adj": impl["adj"], "sps": SPS}
                    pending.append((req2, ("check", case, impl)))
            if len(pending) >= 1500:
                flush(ctx, pending)
        flush(ctx, pending)


def flush(ctx, pending):
    if not pending or not ctx.driver_ok:
        pending.clear()
        return
    answers = ask_driver([p[0] for p in pending])
    for (req, (kind, case, impl)), a in zip(pending, answers):
        if "err" in a:
            ctx.mismatch("driver: %s" % a["err"], case)
            continue
        if kind == "check":
            for f in a["fails"]:
                sig = re.sub(r"-?\d+", "N", f)
                ctx.violation("C16:%s:%s" % (case["abi"], sig), "%s with %s: %s" % (case["abi"], {k: case[k] for k in ("flags", "clobbers", "scratch", "reads", "align", "preserve", "leaf")}, f), case)
            continue
        if impl.get("short_scratch"):
            ctx.violation("C16:scratch-registers-not-as-requested", "%s: %s" % (case["abi"], impl["short_scratch"]), case)
        # correspondence with the Lean generator
        if "alloc_err" in impl or "alloc_err" in a:
            if impl.get("refusal_unjustified"):
                ctx.violation("C16:valid-constraints-refused", "%s refuses %s with %s although every name is a register and the pool holds enough scratch registers"
                              % (case["abi"], {k: case[k] for k in ("clobbers", "scratch", "reads")}, impl["alloc_err"]), case)
            elif impl.get("alloc_err") != a.get("alloc_err"):
                ctx.mismatch("allocation: impl %s, model %s" % (impl.get("alloc_err") or impl.get("alloc"), a.get("alloc_err") or a.get("alloc")), case)
            elif impl.get("alloc_err") not in ("KeyError", "ValueError"):
                ctx.violation("C16:alloc-error:" + str(impl.get("alloc_err")), "register allocation raised %s" % impl.get("alloc_err"), case)
            continue
        # scratch-register clauses, checked directly on the real allocation
        al = impl["alloc"]
        if impl.get("read_scratch"):
            ctx.violation("C16:scratch-is-a-read-register", "scratch registers %s are registers the patch reads (%s)" % (impl["read_scratch"], case["reads"]), case)
        if len(al["scratch"]) != case["scratch"] or len(set(al["scratch"])) != len(al["scratch"]):
            ctx.violation("C16:scratch-count", "asked %d scratch registers, got %s" % (case["scratch"], al["scratch"]), case)
        if "gen_err" in impl or "gen_err" in a:
            if impl.get("gen_err") != a.get("gen_err"):
                ctx.mismatch("generator: impl %s, model %s" % (impl.get("gen_err"), a.get("gen_err")), case)
            continue
        # the ARM64 generator mutates the allocation: compare the pre-generation view only through the code
        if impl["pre"] != a["pre"] or impl["post"] != a["post"] or impl["adj"] != a["adj"]:
            ctx.mismatch("generated code differs: impl %s / %s / %s, model %s / %s / %s" % (impl["pre"], impl["post"], impl["adj"], a["pre"], a["post"], a["adj"]), case)
        if al["scratch"] != a["alloc"]["scratch"]:
            ctx.mismatch("scratch registers: impl %s model %s" % (al["scratch"], a["alloc"]["scratch"]), case)
    pending.clear()


def replay(ctx, payload):
    case = payload.get("case", payload)
    if case.get("leaf_case"):
        check_leaf(ctx, case)
        return
    abis = _abi_objs()
    abi = abis[case["abi"]]
    impl = run_impl(abi, case)
    pending = []
    req = {"op": "abi_gen", "abi": case["abi"], "leaf": case["leaf"], "constraints": {k: case[k] for k in ("flags", "clobbers", "scratch", "reads", "align", "preserve")}}
    pending.append((req, ("gen", case, impl)))
    if "pre" in impl:
        fam_x86 = case["abi"].startswith("_X86_64") or case["abi"].startswith("_IA32")
        rz = abi.red_zone_size() if fam_x86 else 0
        req2 = {"op": "abi_check", "abi": case["abi"], "pre": impl["pre"], "post": impl["post"], "restore": impl["declared"],
                "flags": case["flags"] and not case["abi"].startswith("_MIPS"), "guard": rz if (case["leaf"] and rz) else 0,
                "align": case["align"], "adj": impl["adj"], "sps": SPS}
        pending.append((req2, ("check", case, impl)))
    ctx.case(("replay", case))
    flush(ctx, pending)
