"""
Canonical, UUID-free dump of a gtirb module (+ ModifyCache) into the JSON shape
lean/Driver/IRJson.lean parses, dump of an Assembler.Result (the patch), and
`canon()`: an id-independent normal form used to compare two dumps.
"""
import uuid as _uuid

import gtirb

OFFSET_TABLES = ("comments", "padding", "symbolicExpressionSizes")


class IdMap:
    """Stable small integers for Python objects (and UUID values)."""

    def __init__(self):
        self._ids = {}
        self._keep = []
        self.next = 1

    def of(self, obj):
        if obj is None:
            return None
        key = ("u", obj) if isinstance(obj, _uuid.UUID) else ("o", id(obj))
        if key not in self._ids:
            self._ids[key] = self.next
            self.next += 1
            self._keep.append(obj)  # keep alive: id() must not be reused
        return self._ids[key]


def _node(idm, n):
    return ["p", idm.of(n)] if isinstance(n, gtirb.ProxyBlock) else ["b", idm.of(n)]


def _label(l):
    return None if l is None else [l.type.value, bool(l.conditional), bool(l.direct)]


def _edge(idm, e):
    return [_node(idm, e.source), _node(idm, e.target), _label(e.label)]


ATTRS = {a: i for i, a in enumerate(gtirb.SymbolicExpression.Attribute)}


def _symexpr(idm, e):
    attrs = sorted(ATTRS[a] for a in e.attributes)
    if isinstance(e, gtirb.SymAddrConst):
        return {"kind": 0, "offset": e.offset, "scale": 1, "sym1": idm.of(e.symbol), "sym2": 0, "attrs": attrs}
    if isinstance(e, gtirb.SymAddrAddr):
        return {"kind": 1, "offset": e.offset, "scale": e.scale, "sym1": idm.of(e.symbol1), "sym2": idm.of(e.symbol2), "attrs": attrs}
    return {"kind": 2, "offset": 0, "scale": 1, "sym1": 0, "sym2": 0, "attrs": attrs}


def _cfi_dir(idm, d):
    name, args, sym = d
    return [name, [int(a) for a in args], idm.of(sym) if isinstance(sym, gtirb.Symbol) else None]


def _val(v):
    """aux-data values are compared as text; a str-valued enum (the assembler's DataType) is its value"""
    import enum

    if isinstance(v, enum.Enum):
        v = v.value
    return repr(v)


def _aux(module, name):
    t = module.aux_data.get(name)
    return t.data if t is not None else None


def chains_of(ordering):
    """The chains of a BlockOrdering (read-only peek at its linked nodes)."""
    order = getattr(ordering, "_BlockOrdering__order")
    chains = []
    for block, node in order.items():
        if node.prev is None:
            ch = []
            n = node
            while n is not None:
                ch.append(n.value)
                n = n.next
            chains.append(ch)
    return chains


def dump_ir(module, idm, cache=None):
    sects = sorted(module.sections, key=lambda s: s.name)
    out = {"sections": [[idm.of(s), s.name] for s in sects]}
    intervals = []
    blocks = []
    for s in sects:
        for bi in sorted(s.byte_intervals, key=lambda b: (b.address if b.address is not None else 1 << 62, idm.of(b))):
            intervals.append({
                "id": idm.of(bi), "sect": idm.of(s), "addr": bi.address, "size": bi.size,
                "bytes": list(bi.contents),
                "symexprs": [[k, _symexpr(idm, v)] for k, v in sorted(bi.symbolic_expressions.items())],
            })
            for b in sorted(bi.blocks, key=lambda b: (b.offset, b.size != 0, idm.of(b))):
                blocks.append({"id": idm.of(b), "code": isinstance(b, gtirb.CodeBlock), "bi": idm.of(bi), "off": b.offset, "size": b.size})
    out["intervals"] = intervals
    out["blocks"] = blocks
    out["proxies"] = sorted(idm.of(p) for p in module.proxies)
    syms = []
    rc = getattr(cache, "reference_cache", None) if cache is not None else None
    for y in sorted(module.symbols, key=lambda y: (y.name, idm.of(y))):
        r = y.referent
        at_end = bool(y.at_end)
        if rc is not None and y in rc._referents:
            # abstract referent of an indirect reference (read-only walk; see C20)
            from gtirb_rewriting._modify.cache import RefNode

            n = rc._referents[y]
            while isinstance(n.parent, RefNode):
                n = n.parent
            r = n.parent
            at_end = n is rc._references[r][1]
        if isinstance(r, gtirb.ProxyBlock):
            ref = ["p", idm.of(r)]
        elif isinstance(r, gtirb.ByteBlock):
            ref = ["b", idm.of(r)]
        else:
            ref = None
        syms.append({"id": idm.of(y), "name": y.name, "ref": ref, "at_end": at_end})
    out["syms"] = syms
    out["cfg"] = sorted((_edge(idm, e) for e in module.ir.cfg), key=repr)
    out["entry"] = idm.of(module.entry_point)
    aux = {}
    al = _aux(module, "alignment") or {}
    aux["alignment"] = sorted([idm.of(k), int(v)] for k, v in al.items() if isinstance(k, gtirb.ByteBlock))
    omaps = []
    for name in OFFSET_TABLES:
        t = _aux(module, name)
        es = []
        if t:
            for off, v in t.items():
                el = off.element_id
                kind = "b" if isinstance(el, gtirb.ByteBlock) else "i"
                es.append([[kind, idm.of(el)], off.displacement, repr(v)])
        omaps.append([name, sorted(es, key=repr)])
    aux["omaps"] = omaps
    cfi = []
    t = _aux(module, "cfiDirectives")
    if t:
        for off, ds in t.items():
            cfi.append([idm.of(off.element_id), off.displacement, [_cfi_dir(idm, d) for d in ds]])
    aux["cfi"] = sorted(cfi, key=lambda r: (r[0], r[1]))
    for key, name in (("funcBlocks", "functionBlocks"), ("funcEntries", "functionEntries")):
        t = _aux(module, name) or {}
        aux[key] = sorted([idm.of(u), sorted(idm.of(b) for b in bs)] for u, bs in t.items())
    t = _aux(module, "functionNames") or {}
    aux["funcNames"] = sorted([idm.of(u), idm.of(y)] for u, y in t.items())
    for key, name in (("encodings", "encodings"), ("types", "types"), ("profile", "profile"), ("sccs", "SCCs")):
        t = _aux(module, name) or {}
        aux[key] = sorted([idm.of(k), _val(v)] for k, v in t.items())
    t = _aux(module, "peSafeExceptionHandlers") or set()
    aux["peSafeSeh"] = sorted(idm.of(b) for b in t)
    aux["elfInit"] = idm.of(_aux(module, "elfDynamicInit")) if _aux(module, "elfDynamicInit") is not None else None
    aux["elfFini"] = idm.of(_aux(module, "elfDynamicFini")) if _aux(module, "elfDynamicFini") is not None else None
    t = _aux(module, "elfSymbolInfo") or {}
    aux["elfSymInfo"] = sorted([idm.of(k), repr(tuple(v))] for k, v in t.items())
    out["aux"] = aux
    if cache is not None:
        out["fbb"] = sorted([idm.of(b), idm.of(u)] for b, u in cache.functions_by_block.items())
        order = []
        for s in sects:
            if s in cache.block_ordering:
                chains = chains_of(cache.block_ordering[s])
                order.append([idm.of(s), [[idm.of(b) for b in ch] for ch in chains]])
        out["order"] = order
    else:
        fb = _aux(module, "functionBlocks") or {}
        out["fbb"] = sorted([idm.of(b), idm.of(u)] for u, bs in fb.items() for b in bs)
        out["order"] = [[idm.of(s), [[idm.of(b) for b in sorted(s.byte_blocks, key=lambda b: (b.address or 0, b.size != 0))]]] for s in sects]
    out["next"] = idm.next + 1000  # fresh ids of the model never collide with the harness's
    return out


def dump_patch(result, idm, module):
    """Assembler.Result -> patch description with fresh global ids."""
    from gtirb_rewriting.assembler import Assembler

    def sect_dump(s):
        return {
            "name": s.name, "data": list(s.data),
            "blocks": [{"id": idm.of(b), "code": isinstance(b, gtirb.CodeBlock), "bi": None, "off": b.offset, "size": b.size} for b in s.blocks],
            "symexprs": [[k, _symexpr(idm, v)] for k, v in sorted(s.symbolic_expressions.items())],
            "symexpr_sizes": sorted([k, int(v)] for k, v in s.symbolic_expression_sizes.items()),
            "alignment": sorted([idm.of(k), int(v)] for k, v in s.alignment.items()),
            "block_types": sorted([idm.of(k), _val(v)] for k, v in s.block_types.items()),
        }

    text = result.text_section
    others = []
    new_sections = []
    by_name = {s.name: s for s in module.sections}
    for s in result.sections.values():
        if s is text:
            continue
        if s.name in by_name:
            sid = idm.of(by_name[s.name])
        else:
            tok = object()
            sid = idm.of(tok)
            new_sections.append([sid, s.name])
        others.append({"sect": sect_dump(s), "sect_id": sid, "bi_id": idm.of(object())})
    cfi = []
    for off, ds in result.create_cfi_directives().items():
        cfi.append([idm.of(off.element_id), off.displacement, [_cfi_dir(idm, d) for d in ds]])
    syms = []
    for y in sorted(result.symbols, key=lambda y: (y.name, idm.of(y))):
        r = y.referent
        ref = ["p", idm.of(r)] if isinstance(r, gtirb.ProxyBlock) else (["b", idm.of(r)] if isinstance(r, gtirb.ByteBlock) else None)
        syms.append({"id": idm.of(y), "name": y.name, "ref": ref, "at_end": bool(y.at_end)})
    return {
        "text": sect_dump(text), "others": others, "new_sections": new_sections,
        "cfg": sorted((_edge(idm, e) for e in result.cfg), key=repr),
        "syms": syms, "proxies": sorted(idm.of(p) for p in result.proxies),
        "cfi": sorted(cfi, key=lambda r: (r[0], r[1])),
        "elfSymInfo": sorted([idm.of(k), repr((0, a.type, a.binding, a.visibility, 0))] for k, a in result.elf_symbol_attributes.items()),
        "has_func_sym": any(a.type == "FUNC" for a in result.elf_symbol_attributes.values()),
    }


# ---------------------------------------------------------------------------
# canonical form
# ---------------------------------------------------------------------------
def canon(d, with_cache=True):
    """Id-independent normal form of a dump (for equality up to renaming)."""
    sect_name = {sid: n for sid, n in d["sections"]}
    ivs = sorted(d["intervals"], key=lambda i: (sect_name.get(i["sect"], "?"), i["addr"] if i["addr"] is not None else 1 << 62, i["bytes"], i["size"]))
    iv_idx = {i["id"]: k for k, i in enumerate(ivs)}
    blks = [b for b in d["blocks"] if b["bi"] is not None and b["bi"] in iv_idx]
    blks.sort(key=lambda b: (iv_idx[b["bi"]], b["off"], b["size"] != 0, not b["code"], b["size"]))
    b_idx = {b["id"]: k for k, b in enumerate(blks)}

    def bref(x):
        return b_idx.get(x, "DETACHED:%s" % ("?" if x is None else "x"))

    # proxies by signature
    refs_by_proxy = {}
    for y in d["syms"]:
        if y["ref"] and y["ref"][0] == "p":
            refs_by_proxy.setdefault(y["ref"][1], []).append(y["name"])
    sig = {}
    for p in set(d["proxies"]) | {e[i][1] for e in d["cfg"] for i in (0, 1) if e[i][0] == "p"} | set(refs_by_proxy):
        ins = sorted(repr((bref(e[0][1]) if e[0][0] == "b" else "P", e[2])) for e in d["cfg"] if e[1] == ["p", p])
        outs = sorted(repr((bref(e[1][1]) if e[1][0] == "b" else "P", e[2])) for e in d["cfg"] if e[0] == ["p", p])
        sig[p] = (sorted(refs_by_proxy.get(p, [])), ins, outs, p in d["proxies"])
    plist = sorted(sig, key=lambda p: repr(sig[p]))
    p_idx = {p: k for k, p in enumerate(plist)}

    def nref(n):
        return ["b", bref(n[1])] if n[0] == "b" else ["p", p_idx.get(n[1], "?")]

    syms = sorted(d["syms"], key=lambda y: (y["name"], repr(y["ref"] and nref(y["ref"])), y["at_end"]))
    s_idx = {y["id"]: k for k, y in enumerate(syms)}

    def se(e):
        return {**e, "sym1": s_idx.get(e["sym1"], "MISSING") if e["kind"] < 2 else 0, "sym2": s_idx.get(e["sym2"], "MISSING") if e["kind"] == 1 else 0}

    out = {
        "sections": sorted(set(sect_name.values())),
        "intervals": [{"sect": sect_name.get(i["sect"], "?"), "addr": i["addr"], "size": i["size"], "bytes": i["bytes"],
                       "symexprs": [[k, se(e)] for k, e in sorted(i["symexprs"], key=lambda p: p[0])]} for i in ivs],
        "blocks": [{"code": b["code"], "bi": iv_idx[b["bi"]], "off": b["off"], "size": b["size"]} for b in blks],
        "proxies": [sig[p] for p in plist],
        "syms": [{"name": y["name"], "ref": y["ref"] and nref(y["ref"]), "at_end": y["at_end"]} for y in syms],
        "cfg": sorted(([nref(e[0]), nref(e[1]), e[2]] for e in d["cfg"]), key=repr),
        "entry": None if d["entry"] is None else bref(d["entry"]),
    }
    a = d["aux"]
    # functions: canonical name = (sorted block idxs of functionBlocks/Entries, name symbol)
    fkeys = {}
    for f, bs in a["funcBlocks"]:
        fkeys.setdefault(f, [[], [], None])[0] = sorted(map(repr, map(bref, bs)))
    for f, bs in a["funcEntries"]:
        fkeys.setdefault(f, [[], [], None])[1] = sorted(map(repr, map(bref, bs)))
    for f, y in a["funcNames"]:
        fkeys.setdefault(f, [[], [], None])[2] = s_idx.get(y, "MISSING")
    out["functions"] = sorted(fkeys.values(), key=repr)
    f_canon = {f: repr(v) for f, v in fkeys.items()}

    def el(e):
        return ["b", bref(e[1])] if e[0] == "b" else ["i", iv_idx.get(e[1], "DETACHED")]

    out["aux"] = {
        "alignment": sorted(([bref(k), v] for k, v in a["alignment"]), key=repr),
        "omaps": [[n, sorted(([el(e), k, v] for e, k, v in es), key=repr)] for n, es in sorted(a["omaps"]) if es],
        "cfi": sorted(([bref(b), k, [[n, ar, s_idx.get(y, "MISSING") if y is not None else None] for n, ar, y in ds]] for b, k, ds in a["cfi"] if ds), key=repr),
        "encodings": sorted(([bref(k), v] for k, v in a["encodings"]), key=repr),
        "types": sorted(([bref(k), v] for k, v in a["types"]), key=repr),
        "profile": sorted(([bref(k), v] for k, v in a["profile"]), key=repr),
        "sccs": sorted(([bref(k), v] for k, v in a["sccs"]), key=repr),
        "peSafeSeh": sorted((bref(b) for b in a["peSafeSeh"]), key=repr),
        "elfInit": None if a["elfInit"] is None else bref(a["elfInit"]),
        "elfFini": None if a["elfFini"] is None else bref(a["elfFini"]),
        "elfSymInfo": sorted(([s_idx.get(k, "MISSING"), v] for k, v in a["elfSymInfo"]), key=repr),
    }
    if with_cache:
        out["fbb"] = sorted(([bref(b), f_canon.get(f, "nofunc")] for b, f in d["fbb"]), key=repr)
        out["order"] = sorted(([sect_name.get(s, "?"), sorted(([bref(b) for b in ch] for ch in chains), key=repr)] for s, chains in d["order"] if chains), key=repr)
    return out, {"blocks": b_idx, "syms": s_idx, "intervals": iv_idx, "proxies": p_idx}


def diff_paths(a, b, path="", out=None, limit=8):
    """First few paths where two canonical forms differ."""
    if out is None:
        out = []
    if len(out) >= limit:
        return out
    if type(a) is not type(b):
        out.append("%s: %r != %r" % (path, a, b))
    elif isinstance(a, dict):
        for k in sorted(set(a) | set(b)):
            if k not in a or k not in b:
                out.append("%s.%s: missing on one side" % (path, k))
            else:
                diff_paths(a[k], b[k], path + "." + str(k), out, limit)
    elif isinstance(a, list):
        if len(a) != len(b):
            out.append("%s: length %d != %d  (%r vs %r)" % (path, len(a), len(b), a[:6], b[:6]))
        else:
            for i, (x, y) in enumerate(zip(a, b)):
                diff_paths(x, y, "%s[%d]" % (path, i), out, limit)
    elif a != b:
        out.append("%s: %r != %r" % (path, a, b))
    return out
