#!/bin/sh
# clean-tree sweep: every check, quick tier under several seeds, then the thorough tier.
# usage: harness/sweep.sh [seeds...]   (run from /verif or a snapshot of it; /repo must be unchanged)
cd "$(dirname "$0")/.." || exit 2
(cd lean && lake build >/dev/null 2>&1)
seeds="${*:-1 2 3 4 5}"
bad=0
for s in $seeds; do
  for i in 01 02 03 04 05 06 07 08 09 10 11 12 13 14 15 16 17 18 19 20; do
    out=$(VERIF_SEED=$s ./check C$i --tier quick 2>&1); rc=$?
    echo "$out" | grep -E "tier=quick" | tail -1
    if [ $rc -ne 0 ]; then bad=$((bad+1)); echo "  exit $rc"; echo "$out" | grep -E "VIOLATION|ERROR|violation:" | head -5; fi
  done
done
for i in 01 02 03 04 05 06 07 08 09 10 11 12 13 14 15 16 17 18 19 20; do
  out=$(./check C$i --tier thorough 2>&1); rc=$?
  echo "$out" | grep -E "tier=thorough" | tail -1
  if [ $rc -ne 0 ]; then bad=$((bad+1)); echo "  exit $rc"; echo "$out" | grep -E "VIOLATION|ERROR|violation:" | head -5; fi
done
echo "sweep done: $bad checks did not exit 0"
