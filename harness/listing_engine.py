"""
Shared engine of the E-modify properties (C01-C04, C06, C08): generated modules
and request sets are run through the real RewritingContext.apply(); then

  (O) oracle          the real before/after IR dumps and the registered requests are
                      handed to the Lean listing specification (`listing_check`,
                      Spec/Listing*.lean) which says where every byte, label and
                      annotation must be;
  (T) correspondence  every recorded `insert` / `delete` call is replayed on the Lean
                      IR model (`ir_op`, Model/IR/*.lean) and the two resulting IRs
                      are compared in canonical (id-free) form.

A property runner picks the facet (the key of the driver's answer) it decides.
"""
import glob
import json
import re
import os

import emodify
import irdump
from common import ROOT, ask_driver

CORPUS_DIR = os.path.join(ROOT, "corpus", "emodify")

# known findings, recognised on the *input and outcome* (never on the property alone)
SIG_TRAILING_LABEL = "patch-trailing-label-at-block-end-follows-later-insert"
SIG_END_LABEL_PROXY = "end-label-captured-by-proxy-deletion-of-next-block"
SIG_WHOLE_DELETE_INSERT = "insert-at-end-of-wholly-deleted-block-asserts"
SIG_BRANCH_MOVED_LABEL = "patch-branch-to-label-of-block-deleted-in-same-batch"

SIG_CFI_AT_END = "data-patch-at-the-end-of-the-last-code-block-that-carries-cfi-directives-asserts"
REJECTION_OWNER = {
    "whole-delete-then-insert": ("C01", SIG_WHOLE_DELETE_INSERT),
    "branch-to-moved-label": (None, None),  # legitimate when the label now stands on data
    "label-at-end": (None, None),  # documented limit, no finding
    "cfi-at-end": ("C01", SIG_CFI_AT_END),
}


def load_corpus():
    out = []
    for p in sorted(glob.glob(os.path.join(CORPUS_DIR, "*.json"))):
        with open(p) as f:
            d = json.load(f)
        out.append(d["case"] if "case" in d and "text" not in d else d)
    return out


def strip_case(case):
    """the case without the bookkeeping keys build() adds"""

    def clean(d):
        return {k: v for k, v in d.items() if not k.startswith("_")}

    c = {k: v for k, v in case.items() if k != "text" and not k.startswith("sect:")}
    c["text"] = [clean(d) for d in case["text"]]
    for k in case:
        if k.startswith("sect:"):
            c[k] = [clean(d) for d in case[k]]
    return c


def end_label_finding_shape(case, issue):
    """the recorded finding 'end label captured by the proxy' is recognised on the input: the block that carries the end
    label belongs to no function (two function-less blocks are never 'in the same function', so the empty tail cannot be
    joined back), or a request of the batch puts code into that block"""
    m = re.search(r"symbol (\S+) \(end of a block\)", issue.get("msg", ""))
    if not m:
        return True
    name = m.group(1)
    flat = emodify.flat_of(json.loads(json.dumps(case)))
    idx = next((i for i, d in enumerate(flat) if any(y["name"] == name and y.get("at_end") for y in d.get("syms", []))), None)
    if idx is None:
        return True         # not a label of the input (a patch's own label): the other recorded shape
    d = flat[idx]
    if d.get("func") is None:
        return True
    # ... or code is put into that block by the batch (the finding: 'when code is inserted at the block's end and the
    # zero-sized tail cannot be joined back' - the patch ends in a label, in a terminator, ...)
    for e in case.get("edits", []):
        if e.get("block") == idx and e.get("op") in ("insert", "replace"):
            return True
    return False


def trailing_label_finding(case, o, issue):
    """Is this C02 issue the recorded finding?  The label ends a patch that reaches
    the end of its block, later requests insert at that same end, and the label is
    found exactly behind those insertions."""
    if issue["kind"] != "patch-label":
        return False
    led = next((e for e in o["edits"] if any(n == issue["name"] for n, _ in e["labels"])), None)
    if led is None:
        return False
    off = next(k for n, k in led["labels"] if n == issue["name"])
    if off != len(led["ins"]):
        return False
    size = next(b["size"] for b in o["before"]["blocks"] if b["id"] == led["block"])
    if led["off"] + led["del"] != size:
        return False

    def later(e):
        return e["block"] == led["block"] and e["off"] == size and e is not led and (
            e["off"] > led["off"] or (e["del"] > 0, e["order"]) > (led["del"] > 0, led["order"]))

    extra = sum(len(e["ins"]) for e in o["edits"] if later(e))
    # found behind the later insertions; or (having become a start label of the next block
    # that way) carried to the proxy of a retarget_to_proxy deletion of that block
    return extra > 0 and (issue["got"] >= issue["want"] + extra or (issue["got"] < 0 and "proxy" in issue["msg"]))


SIG_PATCH_RET = "return-edges-of-a-ret-inserted-by-a-patch-are-copied-from-the-function"
SIG_CALLEE_DELETED = "call-retargeted-by-whole-block-deletion-keeps-old-return-edges"
SIG_SELF_CALL_DELETED = "wholly-deleted-block-called-its-own-function-return-edges-stay"


def _func_of(dump, b):
    for f, bs in dump["aux"]["funcBlocks"]:
        if b in bs:
            return f
    return None


SIG_BRANCH_TO_END_LABEL = "patch-branches-to-an-end-of-block-label-edge-leads-to-the-block-start"
SIG_TWIN_CALL_DELETED = "deleted-call-shares-its-return-site-with-the-call-in-front-of-it"
SIG_RETARGET_CALL = "retarget-symbol-uses-of-a-call-target-leaves-the-return-edges-of-both-functions"
SIG_TAIL_THEN_INSERT = "code-inserted-at-the-end-of-a-block-left-without-successor-earlier-in-the-batch-misses-the-fallthrough"


def c03_known(case, o, issue):
    """recognise the recorded C03 findings on the input"""
    if issue["kind"] == "fallthrough-missing":
        # code is inserted at the end of a block that is not followed by code while, at that moment of the batch, the
        # code in front of the insertion point has no successor: an earlier request removed the terminator, or an
        # earlier insertion at that same end does not end in a jmp/ret
        text = emodify.flat_of(case)
        for i, x in enumerate(case.get("edits", [])):
            d = text[x["block"]]
            if x["op"] != "insert" or d["kind"] != "code" or not d["insns"] or x["off"] != emodify.block_size(d):
                continue
            size = emodify.block_size(d)
            nxt = x["block"] + 1
            if nxt < len(text) and text[nxt]["kind"] == "code" and text[nxt]["_sect"] == d["_sect"]:
                continue
            for k, y in enumerate(case["edits"]):
                if y is x or y["block"] != x["block"]:
                    continue
                if y["op"] != "insert" and y["off"] + y["len"] == size and d["insns"][-1][0] in ("jmp", "ret"):
                    return SIG_TAIL_THEN_INSERT
                if y["op"] == "insert" and y["off"] == size and k < i and emodify._last_mnemonic(y.get("asm")) not in (None, "jmp", "ret"):
                    return SIG_TAIL_THEN_INSERT
        return None
    if issue["kind"] in ("branch-target", "call-target"):
        # a patch branches to / calls an end-of-block (at_end) label: the assembler follows Symbol.referent and
        # ignores at_end, so the edge leads to the start of the label's block instead of the position behind it
        ends = {y["name"] for d in emodify.flat_of(case) for y in d["syms"] if y.get("at_end")}
        for e in case.get("edits", []):
            for line in e.get("asm", "").splitlines():
                t = line.replace(",", " ").split()
                if len(t) == 2 and t[0] in ("jmp", "jne", "je", "call") and t[1] in ends:
                    return SIG_BRANCH_TO_END_LABEL
        return None
    if not issue["kind"].startswith("return"):
        return None
    text = emodify.flat_of(case)
    label_func = {y["name"]: d.get("func") for d in text if d["kind"] == "code" for y in d["syms"]}
    # (0) retarget_symbol_uses(A, B) where a call names A: the call edge moves, the return edges of A's and B's
    #     functions do not (the C18 finding, seen through C03's return clause)
    if case.get("retargets"):
        olds = {a for a, _ in case["retargets"]}
        called = {i[1] for d in text if d["kind"] == "code" for i in d["insns"] if i[0] == "call"}
        for e in case.get("edits", []):
            for line in e.get("asm", "").splitlines():
                t = line.split()
                if len(t) == 2 and t[0] == "call":
                    called.add(t[1])
        if olds & called:
            return SIG_RETARGET_CALL
    # (1) a patch containing a return is inserted into a function: its return edges are copied from
    #     the function's other returns as they are at that moment (none: a proxy; stale when the
    #     same batch adds, removes or moves calls of that function)
    for e in case.get("edits", []):
        d = text[e["block"]]
        if d["kind"] == "code" and d.get("func") is not None and any(
                l.strip() == "ret" for l in e.get("asm", "").splitlines()):
            return SIG_PATCH_RET
    # (2) a call targets a label of a block that is wholly deleted: the call edge slides to the next
    #     block (or the proxy), the return edges of the old and the new callee's function are not updated
    whole = {e["block"] for e in case.get("edits", [])
             if e["op"] == "delete" and e["off"] == 0 and e["len"] == emodify.block_size(text[e["block"]])}
    names = {y["name"] for b in whole for y in text[b]["syms"]}
    calls = [i[1] for d in text if d["kind"] == "code" for i in d["insns"] if i[0] == "call"]
    for e in case.get("edits", []):
        for line in e.get("asm", "").splitlines():
            t = line.split()
            if len(t) == 2 and t[0] == "call":
                calls.append(t[1])
    if names & set(calls):
        return SIG_CALLEE_DELETED
    # (3) a wholly deleted block ended in a call of its own function
    for e in case.get("edits", []):
        d = text[e["block"]]
        if d["kind"] != "code" or d.get("func") is None:
            continue
        last = d["insns"][-1]
        own_call = last[0] == "call" and label_func.get(last[1]) == d["func"]
        if own_call and e["op"] == "delete" and e["off"] == 0 and e["len"] == emodify.block_size(d):
            return SIG_SELF_CALL_DELETED
    # (4) a wholly deleted block ended in a call of the function that the block in front of it calls too: the return
    #     site of the earlier call becomes the return site of the deleted one, and its return edge goes with the call
    for b in whole:
        d = text[b]
        if d["kind"] != "code" or not d["insns"] or d["insns"][-1][0] != "call" or b == 0:
            continue
        p = text[b - 1]
        if p["kind"] == "code" and p.get("_sect") == d.get("_sect") and p["insns"] and p["insns"][-1] == d["insns"][-1]:
            return SIG_TWIN_CALL_DELETED
    return None


def patch_refs(asm):
    """[symbol, addend] for every symbolic operand the patch text names (x86-64 AT&T forms the generators use)"""
    out = []
    for line in asm.splitlines():
        t = line.strip()
        m = re.fullmatch(r"(?:call|jmp|jne|je)\s+([A-Za-z_.$][\w.$]*)", t)
        if m:
            out.append([m.group(1), 0])
            continue
        m = re.search(r"([A-Za-z_.$][\w.$]*)([+-]\d+)?\(%rip\)", t)
        if m:
            out.append([m.group(1), int(m.group(2) or 0)])
            continue
        m = re.fullmatch(r"\.quad\s+([A-Za-z_.$][\w.$]*)([+-]\d+)?", t)
        if m:
            out.append([m.group(1), int(m.group(2) or 0)])
    return out


class Campaign:
    def __init__(self, ctx, facet, with_corr=True):
        self.ctx = ctx
        self.facet = facet
        self.pending = []
        self.with_corr = with_corr

    # -- one case -----------------------------------------------------------
    def add(self, case):
        ctx = self.ctx
        case = strip_case(case)
        try:
            o = emodify.run_listing(json.loads(json.dumps(case)))
        except Exception as e:  # noqa: BLE001 - the harness could not even build the module
            ctx.count("harness-error:" + type(e).__name__)
            ctx.notes.append("harness could not run a case: %r" % (e,))
            return
        nedits = len(case.get("edits", []))
        ctx.case(case, sample={"edits": case.get("edits", []), "blocks": len(case["text"])} if nedits else None,
                 nontrivial=nedits > 0)
        ctx.count("edits:%d" % nedits)
        for e in case.get("edits", []):
            ctx.count("op:" + e["op"] + (":proxy" if e.get("proxy") else ""))
        if o["err"]:
            pred = emodify.predicted_rejections(case)
            cls = emodify.classify_error(o, pred)
            if cls is not None and cls in pred:
                ctx.count("refused:" + cls)
                owner, sig = REJECTION_OWNER[cls]
                if owner == self.facet:
                    ctx.violation("%s:%s" % (owner, sig), "apply() refuses the request set: %s at %s" % (o["err"], o["err_where"]), case)
            else:
                ctx.count("refused:UNEXPECTED")
                # a valid, non-overlapping request set was not applied: the bytes are not the listing's
                if self.facet == "C01":
                    ctx.violation("C01:request-set-refused:%s" % (o["err"].split(":")[0],),
                                  "apply() raised %s at %s (%s) on a non-overlapping request set" % (o["err"], o["err_where"], o["err_line"]), case)
            return
        for r, exc in o.get("refusals", []):
            ctx.count("refused-registration:%s" % (exc or "ACCEPTED"))
        if any(exc is None for _, exc in o.get("refusals", [])):
            ctx.notes.append("a registration expected to be refused was accepted: %r" % ([r for r, x in o["refusals"] if x is None][:1],))
            return
        if getattr(o["rec"], "order_issue", None) and self.facet in ("C09",):
            ctx.violation("C09:cache-ordering-contradicts-the-layout", "the block ordering the caches start with is not the physical one: %s" % o["rec"].order_issue, case)
        if o["edits"] is None and o.get("refusals") and len(o["rec"].records) > len(case.get("edits", [])):
            # more insert/delete calls than accepted requests: a registration that was refused is carried out anyway
            ctx.count("refused-request-carried-out")
            if self.facet == "C01":
                ids = {o["B"].id0[r["block"]] for r, _ in o["refusals"]}
                extra = [x["do"] for x in o["rec"].records if x["do"]["block"] in ids]
                ctx.violation("C01:refused-request-carried-out",
                              "%d requests were accepted, %d operations carried out; among them %s on the block of the refused registration %r"
                              % (len(case.get("edits", [])), len(o["rec"].records), [(d["kind"], d["offset"], d.get("length", d.get("repl"))) for d in extra][:3],
                                 o["refusals"][0][0]), case)
                return
        if o["edits"] is None:
            ctx.count("unpaired")
            ctx.mismatch("the recorded insert/delete calls cannot be paired with the registered requests", case)
            return
        ctx.count("applied")
        if self.facet == "C01":
            for e in o["edits"]:
                if e.get("_foreign_bytes"):
                    src = case["edits"][e["order"]]
                    ctx.violation("C01:requests-at-one-place-out-of-registration-order",
                                  "the operation applied for request %d (%r at block %d offset %d) carries the bytes of another request: requests at one offset are not applied in registration order"
                                  % (e["order"], src.get("asm"), src["block"], src["off"]), case)
                    break
        if self.facet == "C04":
            # what the patch text says about its own symbolic operands, against what was spliced in
            for e in o["edits"]:
                src = case["edits"][e["order"]] if e.get("order") is not None and e["order"] < len(case["edits"]) else {}
                if "asm" not in src:
                    continue
                want = sorted(patch_refs(src["asm"]))
                got = sorted([re.sub(r"^(\.L\w+?)_\d+$", r"\1", x[1]), x[2]] for x in e["exprs"])
                ctx.count("patch-operands", len(want))
                if want != got:
                    ctx.violation("C04:patch-operand", "patch %r: symbolic operands %s, the text says %s" % (src["asm"], got, want), case)
        if self.facet == "C03":
            if emodify.runs_off_end(case):
                # the edited listing has code running into data or off its section: what its control flow is, the
                # property does not say - but its last clause (no edge starts or ends outside the module) still does
                ctx.count("out-of-domain:code-runs-off-the-end (edge endpoints only)")
                case = dict(case, _closure_only=True)
            reqs = [{"op": "cfg_check", "ir": o["after"], "insns": emodify.decode_insns(o["after"]), "nop": emodify.nop_bytes(case),
                     "old_proxies": o["before"]["proxies"],
                     "proxy_deletion": any(e.get("proxy") for e in case.get("edits", []))}]
            # the same rules applied to the input: C03 quantifies over consistent inputs
            reqs.append({"op": "cfg_check", "ir": o["before"], "insns": emodify.decode_insns(o["before"]),
                         "nop": emodify.nop_bytes(case), "old_proxies": o["before"]["proxies"], "proxy_deletion": False})
        else:
            reqs = [{"op": "listing_check", "before": o["before"], "after": o["after"], "edits": o["edits"],
                     "nop": emodify.nop_bytes(case)}]
        # the offset bookkeeping of _apply_modifications, block by block
        self.seq = []
        for blk in sorted({e["block"] for e in o["edits"]}):
            mine = [e for e in o["edits"] if e["block"] == blk]
            base = next((e["_base"] for e in mine if e["_base"] is not None), 0)
            bb = next(b for b in o["before"]["blocks"] if b["id"] == blk)
            iv = next(i for i in o["before"]["intervals"] if i["id"] == bb["bi"])
            reqs.append({"op": "seq_positions", "edits": mine, "block": blk, "base": base,
                         "bytes": iv["bytes"][bb["off"]:bb["off"] + bb["size"]]})
            self.seq.append(mine)
        nseq = len(self.seq)
        recs = []
        loops = []
        if self.with_corr:
            recs = [r for r in o["rec"].records if "after" in r and not r.get("raised")]
            reqs += [{"op": "ir_op", "ir": r["before"], "do": r["do"]} for r in recs]
            # the loop of _apply_modifications itself (IR.applyMods), request by request: the block the
            # previous call returned, the running total_insert_len, the offset the request was registered with
            allrecs = o["rec"].records
            # the premises of all_blocks_are_listing_edits (ReqOk, pairwise different intervals) on what the loop saw
            seen_iv = {}
            for mine in self.seq:
                r0 = allrecs[mine[0]["_rec"]] if mine[0].get("_rec") is not None and mine[0]["_rec"] < len(allrecs) else None
                if r0 is None or "after" not in r0:
                    continue
                b0 = next((b for b in r0["before"]["blocks"] if b["id"] == mine[0]["block"]), None)
                iv0 = next((i for i in r0["before"]["intervals"] if b0 and i["id"] == b0["bi"]), None)
                ctx.count("premise:request-list")
                if b0 is None or iv0 is None or b0["size"] == 0 and any(e["del"] or e["ins"] for e in mine) and False:
                    ctx.mismatch("premise of all_blocks_are_listing_edits: the block of a request list is not in a byte interval", case)
                elif b0["off"] + b0["size"] > len(iv0["bytes"]) or seen_iv.setdefault(iv0["id"], b0["id"]) != b0["id"]:
                    ctx.mismatch("premise of all_blocks_are_listing_edits does not hold: block %s [%d,+%d) in interval %s (%d bytes, also "
                                 "edited for block %s)" % (b0["id"], b0["off"], b0["size"], iv0["id"], len(iv0["bytes"]), seen_iv.get(iv0["id"])), case)
            for mine in self.seq:
                base = next((e["_base"] for e in mine if e["_base"] is not None), None)
                total, prev = 0, mine[0]["block"]
                # the function of the block the requests were registered for, as apply() sees it on arriving there
                r0 = allrecs[mine[0]["_rec"]] if mine[0].get("_rec") is not None and mine[0]["_rec"] < len(allrecs) else None
                func = next((f for b_, f in (r0["before"].get("fbb") or []) if b_ == mine[0]["block"]), None) if r0 else None
                for e in mine:
                    r = allrecs[e["_rec"]] if e.get("_rec") is not None and e["_rec"] < len(allrecs) else None
                    if r is None or "after" not in r or r.get("raised") or base is None:
                        break
                    d = r["do"]
                    step = {"kind": d["kind"], "off": e["off"]}
                    if d["kind"] == "insert":
                        step.update(repl=d["repl"], patch=d["patch"])
                    else:
                        step.update(length=d["length"], proxy=d["proxy"])
                    reqs.append({"op": "loop_step", "ir": r["before"], "orig_off": base, "actual": d["block"],
                                 "total": total, "func": func, "do": step})
                    loops.append((r, prev, e))
                    prev = r.get("ret")
                    total += len(e["ins"]) - e["del"]
                    if prev is None:
                        break
        self.pending.append((case, o, recs, reqs, self.seq, loops))
        if sum(len(p[3]) for p in self.pending) >= 400:
            self.flush()

    def input_ok(self, case, o):
        """C03 quantifies over modules whose input CFG is consistent with their code: check the
        builder's output with the same specification first."""
        a = ask_driver([{"op": "cfg_check", "ir": o["before"], "insns": emodify.decode_insns(o["before"]), "nop": emodify.nop_bytes(case),
                         "old_proxies": o["before"]["proxies"], "proxy_deletion": False}])[0]
        if a.get("C03"):
            self.ctx.count("input-inconsistent")
            self.ctx.notes.append("generated input CFG is not consistent with its code: %s" % a["C03"][0]["msg"])
            return False
        return True

    # -- compare ------------------------------------------------------------
    def flush(self):
        ctx = self.ctx
        if not self.pending:
            return
        flat = [r for p in self.pending for r in p[3]]
        try:
            ans = ask_driver(flat)
        except Exception as e:  # noqa: BLE001
            ctx.driver_ok = False
            ctx.notes.append("driver failure: %r" % (e,))
            self.pending = []
            return
        k = 0
        for case, o, recs, reqs, seq, loops in self.pending:
            a = ans[k]
            extra = 0
            if self.facet == "C03":
                extra = 1
                pre = ans[k + 1]
                if pre.get("C03"):
                    ctx.count("input-inconsistent")
                    ctx.notes.append("generated input CFG is not consistent with its code: %s" % pre["C03"][0]["msg"])
                    k += len(reqs)
                    continue
            seqans = ans[k + 1 + extra:k + 1 + extra + len(seq)]
            mine = ans[k + 1 + extra + len(seq):k + len(reqs) - len(loops)]
            loopans = ans[k + len(reqs) - len(loops):k + len(reqs)]
            k += len(reqs)
            for edits, sa in zip(seq, seqans):
                ctx.count("corr:offsets")
                if "positions" not in sa:
                    ctx.mismatch("offset bookkeeping model failed: %s" % (sa,), case)
                    continue
                by_order = {e["order"]: e["_pos"] for e in edits}
                got = [by_order[o_] for o_ in sa["order"]]
                if got != sa["positions"]:
                    ctx.mismatch("_apply_modifications edits at interval positions %s, the model (offset + total_insert_len) at %s"
                                 % (got, sa["positions"]), case)
                if sa["seq"] != sa["spec"]:
                    ctx.mismatch("sequential application differs from the plain splice on this request list", case)
            if "err" in a or self.facet not in a:
                ctx.mismatch("the listing specification could not be evaluated: %s" % (a.get("err"),), case)
                continue
            for issue in a[self.facet]:
                if case.get("_closure_only") and issue["kind"] != "edge-endpoint":
                    continue
                sig = "%s:%s" % (self.facet, issue["kind"])
                if self.facet == "C02" and trailing_label_finding(case, o, issue):
                    sig = "C02:" + SIG_TRAILING_LABEL
                if self.facet == "C02" and issue["kind"] == "end-label-on-proxy" and end_label_finding_shape(case, issue):
                    sig = "C02:" + SIG_END_LABEL_PROXY
                if self.facet == "C03":
                    k3 = c03_known(case, o, issue)
                    if k3:
                        sig = "C03:" + k3
                ctx.count("issue:" + issue["kind"])
                ctx.violation(sig, issue["msg"], case)
            for r, m in zip(recs, mine):
                ctx.count("corr:" + r["do"]["kind"])
                if "ir" not in m:
                    ctx.mismatch("model refuses %s that the code performs: %s" % (r["do"]["kind"], m.get("err")), case)
                    continue
                ca, na = irdump.canon(r["after"])
                cm, nm = irdump.canon(m["ir"])
                if ca != cm:
                    d = irdump.diff_paths(ca, cm)[:4]
                    ctx.mismatch("IR after %s differs between code and model at %s" % (r["do"]["kind"], d), case)
                elif "ret" in r and r["do"]["kind"] in ("insert", "delete"):
                    # the block the call returns (the loop of _apply_modifications goes on with it)
                    ra = None if r["ret"] is None else na["blocks"].get(r["ret"], "detached")
                    rm = None if m.get("ret") is None else nm["blocks"].get(m["ret"], "detached")
                    ctx.count("corr:returned-block")
                    if ra != rm:
                        ctx.mismatch("%s returns block #%s (in address order), the model block #%s" % (r["do"]["kind"], ra, rm), case)
            for (r, prev, e), la in zip(loops, loopans):
                ctx.count("corr:loop-step")
                if "ao" not in la:
                    ctx.mismatch("model of the _apply_modifications loop could not be evaluated: %s" % (la,), case)
                    continue
                if r["do"]["block"] != prev:
                    ctx.mismatch("_apply_modifications edits block %s, the previous call returned %s" % (r["do"]["block"], prev), case)
                if la["ao"] != r["do"]["offset"]:
                    ctx.mismatch("_apply_modifications passes offset %s for the request at %s, the model (offset + total_insert_len - block_delta) %s"
                                 % (r["do"]["offset"], e["off"], la["ao"]), case)
                if not la.get("minv", True) and not case.get("shared"):
                    ctx.mismatch("premise of apply_keeps_cache_in_step does not hold on a recorded state: functions_by_block does not mirror functionBlocks", case)
                if not la.get("sinv", True) or not la.get("patch_ok", True):
                    ctx.mismatch("premise of no_symbol_is_left_on_a_block_that_left_the_module does not hold on a recorded state: sinv=%s patch_ok=%s"
                                 % (la.get("sinv"), la.get("patch_ok")), case)
                if not la.get("expr_ok", True) or not la.get("patch_expr_ok", True):
                    ctx.mismatch("premise of expression_symbols_are_part_of_the_module does not hold on a recorded state: expr_ok=%s patch_expr_ok=%s"
                                 % (la.get("expr_ok"), la.get("patch_expr_ok")), case)
                ctx.count("premise:sinv+patch_ok")
                if not la["ids_below"] or not la["new_blocks"]:
                    ctx.mismatch("premise of loop_is_listing does not hold on a recorded state: ids_below=%s new_blocks=%s"
                                 % (la["ids_below"], la["new_blocks"]), case)
                if "ir" not in la["res"]:
                    ctx.mismatch("model of the loop refuses a request the code performs: %s" % (la["res"].get("err"),), case)
                    continue
                if irdump.canon(r.get("iter_after", r["after"]))[0] != irdump.canon(la["res"]["ir"])[0]:
                    ctx.mismatch("IR after one iteration of the _apply_modifications loop differs between code and model", case)
        self.pending = []


def run(ctx, facet, quick, thorough, with_corr=True):
    camp = Campaign(ctx, facet, with_corr)
    for c in load_corpus():
        if c.get("retargets") and facet != "C03":
            continue            # the listing of the other facets has no retarget_symbol_uses
        ctx.count("corpus")
        camp.add(c)
    if facet == "C03":
        for _ in range(ctx.budget(30, 600)):
            ctx.count("retarget-of-a-deleted-block")
            camp.add(emodify.retarget_of_a_deleted_block(ctx.rng))
    n = ctx.budget(quick, thorough)
    for k in range(n):
        # C03: mostly listings whose control flow is defined; every sixth one may run off its end (closure clause only)
        case = emodify.gen_case(ctx.rng, cfg_domain=(facet == "C03" and k % 6 != 0))
        if facet == "C03" and k % 5 == 1:
            # retarget_symbol_uses in the same context: the uses of one code label are pointed at another code label
            # or an external symbol (the edited listing then names the new symbol)
            emodify.add_retargets(ctx.rng, case)
        if facet == "C03" and k % 9 == 4:
            # a patch that puts part of its code into another executable section (a cold path): the code there ends in
            # a jump back, a return, a call (refused by the code: nothing follows the call) or nothing at all
            code = [i for i, d in enumerate(case["text"]) if d["kind"] == "code" and d["insns"]]
            if code:
                i = ctx.rng.choice(code)
                off = ctx.rng.choice(emodify.block_layout(case["text"][i])[:-1])
                if not any(e["block"] == i and (e["off"] == off or e["off"] < off < e["off"] + e.get("len", 0)) for e in case["edits"]):
                    end = ctx.rng.choice(["jmp .Lback", "jmp .Lback", "ret", "call ext_a", "nop", "jne .Lback"])
                    case["edits"].append({"op": "insert", "block": i, "off": off, "asm":
                                          '.section .text.unlikely,"ax",@progbits\n.Lcold:\nmovl $%d, %%eax\n%s\n.text\ntestl %%eax, %%eax\nje .Lcold\n.Lback:\nnop'
                                          % (emodify.fresh_imm(ctx.rng), end)})
        camp.add(case)
    camp.flush()


def replay(ctx, facet, payload):
    camp = Campaign(ctx, facet, True)
    camp.add(payload.get("case", payload))
    camp.flush()
