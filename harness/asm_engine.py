"""
Assembler engine shared by C12 and C13.

* tokens -> assembly text for one of the configurations (ISA, syntax, file format);
* the real `Assembler` run under a recorder that notes every event LLVM's parser delivers to
  `_Streamer` (the model's input) -- nothing in /repo is changed, the methods are wrapped here;
* the `Assembler.Result` in the canonical shape the Lean driver prints for the model's result;
* the text-level description (items) for the Lean specification `asm_check`, with instruction
  sizes and mnemonics taken from capstone's decoding of the result's bytes.
"""
import contextlib

CONFIGS = {
    "x64-att-elf": dict(isa="X64", ff="ELF", syntax="ATT", bt=["DYN"], dyn=True),
    "x64-intel-elf": dict(isa="X64", ff="ELF", syntax="INTEL", bt=["DYN"], dyn=True),
    "x64-att-elf-exec": dict(isa="X64", ff="ELF", syntax="ATT", bt=["EXEC"], dyn=False),
    "x64-att-pe": dict(isa="X64", ff="PE", syntax="ATT", bt=["EXEC", "EXE"], dyn=False),
    "ia32-att-elf": dict(isa="IA32", ff="ELF", syntax="ATT", bt=["DYN"], dyn=True),
    "ia32-att-pe": dict(isa="IA32", ff="PE", syntax="ATT", bt=["EXEC", "EXE"], dyn=False),
    "arm64-elf": dict(isa="ARM64", ff="ELF", syntax="ATT", bt=["DYN"], dyn=True),
    "mips32-elf": dict(isa="MIPS32", ff="ELF", syntax="ATT", bt=["DYN"], dyn=True),
}

# module symbols every case may mention: name -> kind of referent
MODULE_SYMS = {"modfn": "code", "moddata": "data", "modproxy": "proxy"}


def module_syms(cfg):
    """the symbols of the target module: the three above and one whose name looks like a temporary label"""
    d = dict(MODULE_SYMS)
    d[temp_prefix(cfg) + "mod"] = "code"
    return d


def family(cfg):
    isa = CONFIGS[cfg]["isa"]
    return {"X64": "x64", "IA32": "ia32", "ARM64": "arm64", "MIPS32": "mips"}[isa]


def temp_prefix(cfg):
    """the prefix the library itself hands out for temporary labels (InsertionContext.temporary_label): the labels of
    the generated texts are built with it, so that a prefix the assembler does not treat as temporary shows up as
    colliding copies / missing suffixes"""
    import gtirb

    from gtirb_rewriting.abi import ABI

    c = CONFIGS[cfg]

    class _M:           # what ABI.get looks at
        isa = getattr(gtirb.Module.ISA, c["isa"])
        file_format = getattr(gtirb.Module.FileFormat, c["ff"])

    try:
        return ABI.get(_M).temporary_label_prefix()
    except Exception:  # noqa: BLE001   (no ABI for this pair, e.g. IA32 ELF)
        return ".L"


# ---------------------------------------------------------------------------
# tokens -> text
# ---------------------------------------------------------------------------
def _ref(to, addend):
    return to if not addend else "%s%+d" % (to, addend)


def render_token(tok, cfg):
    """one token -> one line of assembly (None when the configuration has no such form)"""
    fam, syn, t = family(cfg), CONFIGS[cfg]["syntax"], tok["t"]
    intel = syn == "INTEL"
    if t == "label":
        return tok["name"] + ":"
    if t == "section":
        if CONFIGS[cfg]["ff"] == "PE":
            return {".text": ".text", ".data": ".data", ".rodata": '.section .rdata,"dr"'}[tok["name"]]
        return {".text": ".text", ".data": ".data", ".rodata": '.section .rodata,"a",@progbits'}[tok["name"]]
    if t == "byte":
        return ".byte " + ", ".join(str(v) for v in tok["vals"])
    if t == "long":
        return ".long %d" % tok["val"]
    if t == "quad":
        return (".quad %d" if fam != "ia32" and fam != "mips" else ".long %d") % tok["val"]
    if t == "quadsym":
        return (".quad %s" if fam in ("x64", "arm64") else ".long %s") % _ref(tok["to"], tok.get("addend", 0))
    if t == "string":
        return '.string "%s"' % tok["s"].replace("\x00", "\\0")
    if t == "ascii":
        return '.ascii "%s"' % tok["s"].replace("\x00", "\\0")
    if t == "zero":
        return ".zero %d" % tok["n"]
    if t == "align":
        return ".p2align %d" % (tok["a"].bit_length() - 1)
    if t == "leb":
        return "%s %s-%s" % (".sleb128" if tok["signed"] else ".uleb128", tok["a"], tok["b"])
    if t == "cfi":
        return tok["text"]
    if t == "raw":
        return tok["text"]
    if fam in ("x64", "ia32"):
        r = "r" if fam == "x64" else "e"
        q = "q" if fam == "x64" else "l"
        if t == "op":
            k = tok["kind"]
            if k == "nop":
                return "nop"
            if k == "movi":
                return ("mov eax, %d" if intel else "movl $%d, %%eax") % tok["imm"]
            if k == "push":
                return ("push %sax" % r) if intel else ("push%s %%%sax" % (q, r))
            if k == "add":
                return ("add %sax, %sbx" % (r, r)) if intel else ("add%s %%%sbx, %%%sax" % (q, r, r))
        if t == "jmp":
            return "jmp " + _ref(tok["to"], tok.get("addend", 0))
        if t == "jcc":
            return "jne " + tok["to"]
        if t == "call":
            return "call " + tok["to"]
        if t == "ret":
            return "ret"
        if t == "ijmp":
            return ("jmp %sax" % r) if intel else ("jmp *%%%sax" % r)
        if t == "icall":
            return ("call %sax" % r) if intel else ("call *%%%sax" % r)
        if t in ("icallm", "ijmpm"):
            mn = "call" if t == "icallm" else "jmp"
            if fam == "x64":
                sym = tok["to"] + ("@GOTPCREL" if tok.get("got") else "")
                return ("%s qword ptr [rip + %s]" % (mn, sym)) if intel else ("%s *%s(%%rip)" % (mn, sym))
            return "%s *%s" % (mn, tok["to"])
        if t == "ref":
            a = tok.get("addend", 0)
            if fam == "x64" and tok.get("imm") is not None:
                # a displacement followed by an immediate: LLVM's PC-relative adjustment is not 4
                return ("mov dword ptr [rip + %s], %d" % (_ref(tok["to"], a), tok["imm"])) if intel else ("movl $%d, %s(%%rip)" % (tok["imm"], _ref(tok["to"], a)))
            if fam == "x64":
                if tok.get("got"):
                    var = tok.get("variant") or "GOTPCREL"
                    return ("mov rax, qword ptr [rip + %s@%s]" % (tok["to"], var)) if intel else ("movq %s@%s(%%rip), %%rax" % (tok["to"], var))
                return ("lea rax, [rip + %s]" % _ref(tok["to"], a)) if intel else ("leaq %s(%%rip), %%rax" % _ref(tok["to"], a))
            return "movl $%s, %%eax" % _ref(tok["to"], a)
    if fam == "arm64":
        if t == "op":
            k = tok["kind"]
            return {"nop": "nop", "movi": "mov x0, #%d" % (tok.get("imm", 0) & 0xFFF), "push": "str x0, [sp, #-16]!", "add": "add x0, x0, x1"}[k]
        if t == "jmp":
            return "b " + _ref(tok["to"], tok.get("addend", 0))
        if t == "jcc":
            return "b.ne " + tok["to"]
        if t == "call":
            return "bl " + tok["to"]
        if t == "ret":
            return "ret"
        if t == "ijmp":
            return "br x0"
        if t == "icall":
            return "blr x0"
        if t == "ref":
            if tok.get("got"):
                return "ldr x0, [x0, :got_lo12:%s]" % tok["to"]
            if tok.get("lo12"):
                return "add x0, x0, :lo12:%s" % _ref(tok["to"], tok.get("addend", 0))
            if tok.get("lit"):
                return "ldr x1, " + _ref(tok["to"], tok.get("addend", 0))
            return "adrp x0, " + _ref(tok["to"], tok.get("addend", 0))
    if fam == "mips":
        if t == "op":
            k = tok["kind"]
            return {"nop": "nop", "movi": "addiu $8, $8, %d" % (tok.get("imm", 0) & 0x7FF), "push": "sw $8, 0($29)", "add": "addu $8, $8, $9"}[k]
        if t == "jmp":
            return "j " + _ref(tok["to"], tok.get("addend", 0))
        if t == "b":
            return "b " + tok["to"]
        if t == "jcc":
            return "beq $8, $9, " + tok["to"]
        if t == "call":
            return "jal " + tok["to"]
        if t == "ijmp":
            return "jr $31"
        if t == "icall":
            return "jalr $25"
        if t == "ref":
            if tok.get("lo12"):
                return "addiu $8, $8, %%lo(%s)" % _ref(tok["to"], tok.get("addend", 0))
            return "lui $8, %%hi(%s)" % _ref(tok["to"], tok.get("addend", 0))
    return None


def render(tokens, cfg):
    lines = []
    for tok in tokens:
        line = render_token(tok, cfg)
        if line is None:
            raise ValueError("token %r has no form for %s" % (tok, cfg))
        lines.append(line)
    return "\n".join(lines) + "\n"


MNEMONICS = {
    "x86": {"nop": {"nop"}, "movi": {"mov"}, "push": {"push"}, "add": {"add"}, "jmp": {"jmp"}, "jcc": {"jne"}, "call": {"call"},
            "ret": {"ret"}, "ijmp": {"jmp"}, "icall": {"call"}, "icallm": {"call"}, "ijmpm": {"jmp"}, "ref": {"lea", "mov"}},
    "arm64": {"nop": {"nop"}, "movi": {"mov", "movz"}, "push": {"str"}, "add": {"add"}, "jmp": {"b"}, "jcc": {"b.ne"}, "call": {"bl"},
              "ret": {"ret"}, "ijmp": {"br"}, "icall": {"blr"}, "ref": {"adrp", "add", "ldr"}},
    "mips": {"nop": {"nop"}, "movi": {"addiu"}, "push": {"sw"}, "add": {"addu"}, "jmp": {"j"}, "b": {"b", "beq", "beqz"}, "jcc": {"beq"},
             "call": {"jal"}, "ijmp": {"jr"}, "icall": {"jalr"}, "ref": {"lui", "addiu"}},
}

CODE_TOKENS = ("op", "jmp", "b", "jcc", "call", "ret", "ijmp", "icall", "icallm", "ijmpm", "ref")


def token_kind(tok):
    """(kind, indirect, direct target) the text demands"""
    t = tok["t"]
    if t in ("jmp", "b"):
        return "jmp", False, tok["to"]
    if t == "jcc":
        return "jcc", False, tok["to"]
    if t == "call":
        return "call", False, tok["to"]
    if t == "ret":
        return "ret", False, None
    if t in ("ijmp", "ijmpm"):
        return "jmp", True, None
    if t in ("icall", "icallm"):
        return "call", True, None
    return "other", False, None


def data_size(tok, cfg):
    fam, t = family(cfg), tok["t"]
    if t == "byte":
        return len(tok["vals"])
    if t == "long":
        return 4
    if t in ("quad", "quadsym"):
        return 8 if fam in ("x64", "arm64") else 4
    if t == "string":
        return len(tok["s"]) + 1
    if t == "ascii":
        return len(tok["s"])
    if t == "zero":
        return tok["n"]
    if t == "leb":
        return 1
    return None


def capstone_for(cfg):
    import capstone

    isa = CONFIGS[cfg]["isa"]
    if isa == "X64":
        md = capstone.Cs(capstone.CS_ARCH_X86, capstone.CS_MODE_64)
    elif isa == "IA32":
        md = capstone.Cs(capstone.CS_ARCH_X86, capstone.CS_MODE_32)
    elif isa == "ARM64":
        md = capstone.Cs(capstone.CS_ARCH_ARM64, capstone.CS_MODE_ARM)
    else:
        md = capstone.Cs(capstone.CS_ARCH_MIPS, capstone.CS_MODE_MIPS32 | capstone.CS_MODE_BIG_ENDIAN)
    md.detail = True
    return md


# ---------------------------------------------------------------------------
# the real assembler under a recorder
# ---------------------------------------------------------------------------
def _sym_of(expr, keyof):
    import gtirb

    if isinstance(expr, gtirb.SymAddrConst):
        return {"sym": keyof(expr.symbol), "addend": expr.offset, "attrs": sorted(a.name for a in expr.attributes)}
    if isinstance(expr, gtirb.SymAddrAddr):
        return {"sym": keyof(expr.symbol1), "sym2": keyof(expr.symbol2), "addend": expr.offset,
                "attrs": sorted(a.name for a in expr.attributes)}
    return {"other": repr(expr)}


@contextlib.contextmanager
def recording(events):
    """Wrap `_Streamer`'s entry points; `events` receives one dict per call, in order."""
    import gtirb
    import mcasm

    import gtirb_rewriting.assembler.assembler as A

    S = A._Streamer
    saved = {}

    def keyof_for(self):
        inv = {id(v): k for k, v in self._state.local_symbols.items()}
        return lambda sym: inv.get(id(sym), sym.name)

    o_label, o_sect, o_insn, o_val = S.emit_label, S.change_section, S.emit_instruction, S.emit_value_impl
    o_bytes, o_fill, o_al, o_enc, o_cfi = S.emit_bytes, S.emit_value_fill, S._emit_alignment, S._emit_value_with_encoding, S._append_cfi_instruction

    def emit_label(self, state, symbol, loc):
        events.append({"ev": "label", "name": symbol.name})
        return o_label(self, state, symbol, loc)

    def change_section(self, state, section, subsection):
        ev = {"ev": "section", "name": section.name, "exec": False}
        events.append(ev)
        try:
            return o_sect(self, state, section, subsection)
        finally:
            s = self._state.sections.get(section.name)
            if s is not None:
                ev["exec"] = gtirb.Section.Flag.Executable in s.flags

    def emit_instruction(self, state, inst, data, fixups):
        d = inst.desc
        kind = "ret" if d.is_return else "call" if d.is_call else ("jcc" if d.is_conditional_branch else "jmp") if d.is_branch else "other"
        indirect = bool(d.is_indirect_branch or A._is_indirect_call(self._state.target.isa, inst)) if kind in ("call", "jmp", "jcc") else False
        ev = {"ev": "insn", "size": len(data), "kind": kind, "indirect": indirect, "fixups": []}
        events.append(ev)
        sect = self._state.optional_current_section
        base = len(sect.data) if sect else 0
        try:
            return o_insn(self, state, inst, data, fixups)
        finally:
            keyof = keyof_for(self)
            for f in fixups:
                e = sect.symbolic_expressions.get(base + f.offset) if sect else None
                ev["fixups"].append(dict(off=f.offset, size=f.kind_info.bit_size // 8, **(_sym_of(e, keyof) if e is not None else {"other": "missing"})))

    def emit_value_impl(self, state, value, size, loc):
        ev = {"ev": "value", "size": size}
        events.append(ev)
        sect = self._state.optional_current_section
        pos = len(sect.data) if sect else 0
        try:
            return o_val(self, state, value, size, loc)
        finally:
            e = sect.symbolic_expressions.get(pos) if sect else None
            ev["fix"] = _sym_of(e, keyof_for(self)) if e is not None else {"other": "missing"}

    def emit_bytes(self, state, data):
        events.append({"ev": "bytes", "n": len(data), "raw": bool(self._prevent_print_as_string_count), "nul": data == b"\0"})
        return o_bytes(self, state, data)

    def emit_value_fill(self, state, num_bytes, fill_value, loc):
        events.append({"ev": "fill", "n": getattr(num_bytes, "value", None), "fill": fill_value})
        return o_fill(self, state, num_bytes, fill_value, loc)

    def _emit_alignment(self, parser_state, alignment, value, value_size, max_bytes):
        events.append({"ev": "align", "a": alignment, "value": value, "max": max_bytes})
        return o_al(self, parser_state, alignment, value, value_size, max_bytes)

    def _emit_value_with_encoding(self, parser_state, value, type):
        is_expr = isinstance(value, mcasm.mc.Expr)
        ev = {"ev": "enc", "type": type.name, "expr": is_expr}
        events.append(ev)
        n = len(events)
        try:
            return o_enc(self, parser_state, value, type)
        finally:
            ev["inner"] = events[n:]
            del events[n:]

    def _append_cfi_instruction(self, inst):
        if self._state.current_cfi_procedure:
            events.append({"ev": "cfi", "what": inst[0]})
        return o_cfi(self, inst)

    o_start, o_end = S.emit_cfi_start_proc_impl, S.emit_cfi_end_proc_impl

    def emit_cfi_start_proc_impl(self, state, frame):
        r = o_start(self, state, frame)
        proc = self._state.current_cfi_procedure
        if proc is not None and proc.start_offset is not None:
            events.append({"ev": "cfi", "what": ".cfi_startproc"})
        return r

    def emit_cfi_end_proc_impl(self, state, cur_frame):
        proc = self._state.current_cfi_procedure
        if proc is not None and not proc.is_implicit:
            events.append({"ev": "cfi", "what": ".cfi_endproc"})
        return o_end(self, state, cur_frame)

    SC = A._SymbolCreator
    o_pre = getattr(SC, "_precreate_label", None)

    def _precreate_label(self, parser_state, label):
        events.append({"ev": "pre", "name": label.name})
        return o_pre(self, parser_state, label)

    if o_pre is not None:
        SC._precreate_label = _precreate_label
    else:
        # the observation point is gone (renamed or restructured): the event stream lacks the label pre-creations, which
        # shows as a broken correspondence, and the direct oracles still run
        events.append({"ev": "hook-missing", "name": "_SymbolCreator._precreate_label"})
    names = dict(emit_label=emit_label, change_section=change_section, emit_instruction=emit_instruction,
                 emit_value_impl=emit_value_impl, emit_bytes=emit_bytes, emit_value_fill=emit_value_fill,
                 _emit_alignment=_emit_alignment, _emit_value_with_encoding=_emit_value_with_encoding,
                 _append_cfi_instruction=_append_cfi_instruction, emit_cfi_start_proc_impl=emit_cfi_start_proc_impl,
                 emit_cfi_end_proc_impl=emit_cfi_end_proc_impl)
    for k, v in names.items():
        saved[k] = S.__dict__[k]
        setattr(S, k, v)
    try:
        yield
    finally:
        if o_pre is not None:
            SC._precreate_label = o_pre
        for k, v in saved.items():
            setattr(S, k, v)


def build_module(cfg):
    import gtirb
    from gtirb_test_helpers import add_code_block, add_data_block, add_proxy_block, add_symbol, add_text_section, create_test_module

    import gtirb_rewriting._auxdata as AX

    c = CONFIGS[cfg]
    ir, m = create_test_module(getattr(gtirb.Module.FileFormat, c["ff"]), getattr(gtirb.Module.ISA, c["isa"]), binary_type=c["bt"])
    _, bi = add_text_section(m, address=0x1000)
    code = add_code_block(bi, b"\x00" * 8)
    data = add_data_block(bi, b"\x00" * 8)
    proxy = add_proxy_block(m)
    syms = {"modfn": add_symbol(m, "modfn", code), "moddata": add_symbol(m, "moddata", data), "modproxy": add_symbol(m, "modproxy", proxy)}
    code2 = add_code_block(bi, b"\x00" * 4)
    syms[temp_prefix(cfg) + "mod"] = add_symbol(m, temp_prefix(cfg) + "mod", code2)
    if c["dyn"]:
        gtirb.Section(name=".dynamic", module=m)
    AX.binary_type.set(m, list(c["bt"]))
    return ir, m, syms


def run_real(cfg, chunks, allow_undef=True, triv=False, suffix=None, implicit_cfi=False, detached=False):
    """Assemble the chunks (texts) with the real assembler.

    Returns dict(events=[per chunk], result, keys, err, err_class, module, modsyms)."""
    import gtirb

    from gtirb_rewriting.assembler import Assembler
    from gtirb_rewriting.assembly import X86Syntax

    c = CONFIGS[cfg]
    ir, m, modsyms = build_module(cfg)
    asm = Assembler(Assembler.ModuleTarget(m, detached=detached), temp_symbol_suffix=suffix, trivially_unreachable=triv,
                    allow_undef_symbols=allow_undef, implicit_cfi_procedure=implicit_cfi)
    out = {"events": [], "result": None, "keys": {}, "err": None, "err_class": None, "module": m, "modsyms": modsyms, "ir": ir,
           "err_chunk": None}
    syntax = X86Syntax.INTEL if c["syntax"] == "INTEL" else X86Syntax.ATT
    for ci, text in enumerate(chunks):
        ev = []
        out["events"].append(ev)
        with recording(ev):
            try:
                asm.assemble(text, syntax)
            except Exception as e:  # noqa: BLE001
                out["err"], out["err_class"], out["err_chunk"] = str(e), type(e).__name__, ci
                return out
    out["keys"] = dict(asm._state.local_symbols)
    try:
        out["result"] = asm.finalize()
    except Exception as e:  # noqa: BLE001
        out["err"], out["err_class"], out["err_chunk"] = str(e), type(e).__name__, len(chunks)
    return out


# ---------------------------------------------------------------------------
# shapes for the Lean driver
# ---------------------------------------------------------------------------
def _fix_json(f, size=None):
    return [f.get("off", 0), f.get("size", size or 0), f.get("sym", "?"), f.get("addend", 0)] + ([f["sym2"]] if f.get("sym2") else [])


def model_events(events):
    """recorded events of one chunk -> the model's event list (None when an event is outside the model)"""
    out = []
    skip_enc = False
    pre = [e["name"] for e in events if e["ev"] == "pre"]
    for e in events:
        k = e["ev"]
        if k == "pre":
            continue
        if k == "section":
            out.append(["section", e["name"], e["exec"]])
        elif k == "label":
            out.append(["label", e["name"]])
        elif k == "insn":
            if any("other" in f for f in e["fixups"]):
                return None
            out.append(["insn", e["size"], e["kind"], e["indirect"], [_fix_json(f) for f in e["fixups"]]])
        elif k == "value":
            if "other" in e.get("fix", {"other": 1}):
                return None
            out.append(["value", e["size"], _fix_json(e["fix"], e["size"])])
        elif k == "bytes":
            if e["raw"]:
                out.append(["raw", e["n"]])
            else:
                out.append(["str", e["n"], e["nul"]])
                skip_enc = True
        elif k == "enc":
            if e["type"] == "ASCII":
                continue
            inner = e.get("inner", [])
            if len(inner) != 1 or "other" in inner[0].get("fix", {"other": 1}):
                return None
            out.append(["leb", e["type"] == "SLEB128", _fix_json(inner[0]["fix"], 1)])
        elif k == "fill":
            if e["n"] is None or e["fill"] != 0:
                return None
            out.append(["fill", e["n"]])
        elif k == "align":
            if e["value"] != 0 or e["max"] != 0:
                return None
            out.append(["align", e["a"]])
        elif k == "cfi":
            out.append(["cfi"])
    # labels the pre-pass saw but the streamer never reached (the run stopped early): the model's own pre-pass
    # must see them too
    seen = [e[1] for e in out if e[0] == "label"]
    for name in pre[len(seen):] if pre[:len(seen)] == seen else pre:
        out.append(["label", name])
    return out


def canon_result(real):
    """`Assembler.Result` in the shape of the driver's answer to `assemble`"""
    import gtirb

    res, keys, m = real["result"], real["keys"], real["module"]
    inv = {id(v): k for k, v in keys.items()}
    sects = list(res.sections.values())
    where = {}
    for si, s in enumerate(sects):
        for bi, b in enumerate(s.blocks):
            where[id(b)] = (si, bi)
    modnames = {}
    for name, sym in real["modsyms"].items():
        modnames[id(sym.referent)] = name

    def node(n):
        if id(n) in where:
            return ["b"] + list(where[id(n)])
        if id(n) in modnames:
            return ["ext", modnames[id(n)]]
        if isinstance(n, gtirb.ProxyBlock):
            for k, v in keys.items():
                if v.referent is n:
                    return ["undef", k]
            return ["anon"]
        return ["dangling", type(n).__name__]

    def symname(sym):
        return inv.get(id(sym), sym.name)

    out_sects = []
    for si, s in enumerate(sects):
        exprs = []
        for off, e in sorted(s.symbolic_expressions.items()):
            if isinstance(e, gtirb.SymAddrConst):
                exprs.append([off, symname(e.symbol), e.offset, s.symbolic_expression_sizes.get(off, 0)])
            elif isinstance(e, gtirb.SymAddrAddr):
                exprs.append([off, symname(e.symbol1) + "-" + symname(e.symbol2), e.offset, s.symbolic_expression_sizes.get(off, 0)])
        out_sects.append({
            "name": s.name, "dataLen": len(s.data),
            "blocks": [[b.offset, b.size, isinstance(b, gtirb.DataBlock)] for b in s.blocks],
            "align": sorted([where[id(b)][1], a] for b, a in s.alignment.items() if id(b) in where and where[id(b)][0] == si),
            "types": sorted([where[id(b)][1], t.value] for b, t in s.block_types.items() if id(b) in where),
            "exprs": exprs,
        })
        stray = [b for b in s.alignment if id(b) not in where]
        if stray:
            out_sects[-1]["strayAlign"] = len(stray)
    edges = []
    for e in res.cfg:
        src = list(where[id(e.source)]) if id(e.source) in where else ["dangling", type(e.source).__name__]
        edges.append([src, node(e.target), {"Branch": "branch", "Call": "call", "Fallthrough": "fall", "Return": "ret"}.get(e.label.type.name, e.label.type.name),
                      bool(e.label.conditional), bool(e.label.direct)])
    syms = []
    for k, v in keys.items():
        syms.append([k, node(v.referent) if v.referent is not None else ["none"], bool(v.at_end)])
    return {"sects": out_sects, "edges": sorted(edges, key=repr), "syms": sorted(syms, key=repr)}


def canon_model(ans):
    out = {"sects": [], "edges": sorted(ans["edges"], key=repr), "syms": sorted(ans["syms"], key=repr)}
    for s in ans["sects"]:
        out["sects"].append({"name": s["name"], "dataLen": s["dataLen"], "blocks": s["blocks"], "align": sorted(s["align"]),
                             "types": sorted(s["types"]), "exprs": sorted(s["exprs"])})
    return out


def model_request(cfg, real, allow_undef, triv):
    chunks = []
    for ev in real["events"]:
        me = model_events(ev)
        if me is None:
            return None
        chunks.append(me)
    return {"op": "assemble", "target": {"syms": [[n, k != "data"] for n, k in module_syms(cfg).items()], "allowUndef": allow_undef, "triv": triv},
            "chunks": chunks}


# ---------------------------------------------------------------------------
# text-level description for `asm_check`, sizes from capstone
# ---------------------------------------------------------------------------
def describe(tokens, cfg, real):
    """Walk the tokens over the result's bytes.  Returns (request for asm_check, problems found while decoding,
    expectations for symbolic operands)."""
    import gtirb

    res = real["result"]
    md = capstone_for(cfg)
    fam = family(cfg)
    mn = MNEMONICS["x86" if fam in ("x64", "ia32") else fam]
    sects = list(res.sections.values())
    by_name = {s.name: i for i, s in enumerate(sects)}
    items = {s.name: [] for s in sects}
    pos = {s.name: 0 for s in sects}
    problems, operands = [], []
    cur = ".text"
    sect_alias = {".rodata": ".rdata"} if CONFIGS[cfg]["ff"] == "PE" else {}
    for ti, tok in enumerate(tokens):
        t = tok["t"]
        if t == "section":
            cur = sect_alias.get(tok["name"], tok["name"])
            continue
        if t == "raw":
            continue
        if cur not in items:
            problems.append(("section-missing", cur, 0))
            continue
        s = sects[by_name[cur]]
        p = pos[cur]
        if t == "label":
            items[cur].append(["label", tok["name"]])
        elif t == "align":
            items[cur].append(["align", tok["a"]])
        elif t == "cfi":
            items[cur].append(["cfi"])
        elif t in CODE_TOKENS:
            code = bytes(s.data[p:p + 16])
            dec = next(md.disasm(code, 0x1000 + p, 1), None)
            key = tok["kind"] if t == "op" else t
            if dec is None:
                problems.append(("undecodable", cur, p))
                return None, problems, operands
            if dec.mnemonic not in mn.get(key, set()):
                problems.append(("mnemonic:%s-for-%s" % (dec.mnemonic, key), cur, p))
            if t == "op" and tok["kind"] == "movi" and fam in ("x64", "ia32"):
                if dec.operands[-1].imm != tok["imm"] and dec.operands[0].imm != tok["imm"]:
                    problems.append(("immediate-differs", cur, p))
            kind, indirect, target = token_kind(tok)
            items[cur].append(["insn", dec.size, kind, indirect, target])
            if t in ("jmp", "b", "jcc", "call", "icallm", "ijmpm", "ref"):
                if fam in ("x64", "ia32"):
                    enc = dec.encoding
                    if enc.disp_size and not (t in ("jmp", "jcc", "call")):
                        off, size = enc.disp_offset, enc.disp_size
                    else:
                        off, size = enc.imm_offset, enc.imm_size
                else:
                    off, size = 0, None
                operands.append({"sect": cur, "pos": p + off, "size": size, "sym": tok["to"], "addend": tok.get("addend", 0), "tok": tok})
            pos[cur] = p + dec.size
        else:
            n = data_size(tok, cfg)
            if n is None:
                problems.append(("unknown-token", cur, p))
                continue
            items[cur].append(["data", n, t in ("string", "ascii", "leb")])
            if t == "byte" and bytes(s.data[p:p + n]) != bytes(v & 0xFF for v in tok["vals"]):
                problems.append(("byte-values-differ", cur, p))
            if t in ("string", "ascii") and bytes(s.data[p:p + len(tok["s"])]) != tok["s"].encode():
                problems.append(("string-bytes-differ", cur, p))
            if t == "quadsym":
                operands.append({"sect": cur, "pos": p, "size": n, "sym": tok["to"], "addend": tok.get("addend", 0), "tok": tok})
            if t == "leb":
                operands.append({"sect": cur, "pos": p, "size": 1, "sym": tok["a"] + "-" + tok["b"], "addend": 0, "tok": tok})
            pos[cur] = p + n
    canon = canon_result(real)
    # nodes for asm_check: proxies numbered, undefined symbols' proxies shared by name
    proxy_ids = {}
    where = {}
    for si, s in enumerate(sects):
        for bi, b in enumerate(s.blocks):
            where[id(b)] = (si, bi)
    modnames = {id(sym.referent): name for name, sym in real["modsyms"].items()}

    def node(n):
        if id(n) in where:
            return ["b"] + list(where[id(n)])
        if id(n) in modnames:
            return ["ext", modnames[id(n)]]
        return ["p", proxy_ids.setdefault(id(n), len(proxy_ids))]

    edges = []
    for e in res.cfg:
        if id(e.source) not in where:
            problems.append(("edge-from-outside", "", 0))
            continue
        edges.append([list(where[id(e.source)]), node(e.target), {"Branch": "branch", "Call": "call", "Fallthrough": "fall", "Return": "ret"}[e.label.type.name],
                      bool(e.label.conditional), bool(e.label.direct)])
    syms = []
    for k, v in real["keys"].items():
        if v.referent is not None:
            syms.append([k, node(v.referent), bool(v.at_end)])
    for name, sym in real["modsyms"].items():
        if module_syms(cfg)[name] != "data":
            syms.append([name, node(sym.referent), False])
    req = {"op": "asm_check", "triv": real.get("triv", False), "edges": edges, "syms": syms,
           "sects": [{"name": s.name, "exec": gtirb.Section.Flag.Executable in s.flags, "dataLen": len(s.data),
                      "blocks": canon["sects"][i]["blocks"], "items": items[s.name]} for i, s in enumerate(sects)]}
    return req, problems, operands


def check_operands(real, operands, cfg):
    """each symbolic operand of the text yields exactly one expression at the operand's offset"""
    import gtirb

    res, keys = real["result"], real["keys"]
    inv = {id(v): k for k, v in keys.items()}
    for name, sym in real["modsyms"].items():
        inv[id(sym)] = name
    issues = []
    expected = {}
    fam = family(cfg)
    c = CONFIGS[cfg]
    for o in operands:
        s = res.sections.get(o["sect"])
        if s is None:
            issues.append(("operand-section-missing", o))
            continue
        e = s.symbolic_expressions.get(o["pos"])
        expected.setdefault(o["sect"], set()).add(o["pos"])
        if e is None:
            issues.append(("operand-has-no-expression", o))
            continue
        if isinstance(e, gtirb.SymAddrAddr):
            got, addend = inv.get(id(e.symbol1), "?") + "-" + inv.get(id(e.symbol2), "?"), e.offset
        else:
            got, addend = inv.get(id(e.symbol), "?" + e.symbol.name), e.offset
        if got != o["sym"]:
            issues.append(("operand-symbol:%s" % got, o))
        if addend != o["addend"]:
            issues.append(("operand-addend:%s" % addend, o))
        if o["size"] is not None and s.symbolic_expression_sizes.get(o["pos"]) != o["size"]:
            issues.append(("operand-size:%s" % s.symbolic_expression_sizes.get(o["pos"]), o))
        # a module symbol must be the module's own object
        if o["sym"] in real["modsyms"] and isinstance(e, gtirb.SymAddrConst) and e.symbol is not real["modsyms"][o["sym"]]:
            issues.append(("operand-not-the-module-symbol", o))
        # attributes
        attrs = {a.name for a in e.attributes}
        tok = o["tok"]
        want = set()
        if tok.get("variant"):
            # what the ELF variants stand for (gtirb's attribute of the same name; the GOT-indirect ones add GOT)
            want = {"GOTTPOFF": {"GOT", "TPOFF"}, "GOTNTPOFF": {"GOT", "NTPOFF"}, "TPOFF": {"TPOFF"}, "NTPOFF": {"NTPOFF"},
                    "DTPOFF": {"DTPOFF"}, "TLSGD": {"TLSGD"}}[tok["variant"]]
        elif tok.get("got"):
            want = {"GOT", "PCREL"} if fam == "x64" else {"GOT", "LO12"}
        elif tok.get("lo12"):
            want = {"LO12"} if fam == "arm64" else {"LO"}
        elif fam == "mips" and tok["t"] == "ref":
            want = {"HI"}
        elif fam in ("x64", "ia32") and c["ff"] == "ELF" and "DYN" in c["bt"] and tok["t"] in ("jmp", "jcc", "call") \
                and isinstance(e, gtirb.SymAddrConst) and isinstance(e.symbol.referent, gtirb.ProxyBlock):
            want = {"PLT"}
        # (a memory-indirect transfer through a plain symbol gets whatever the branch inference gives; with an
        # explicit @GOTPCREL the attributes are exactly those of the variant)
        if attrs != want and not (tok["t"] in ("icallm", "ijmpm") and not tok.get("got")):
            issues.append(("operand-attributes:%s-want-%s" % (sorted(attrs), sorted(want)), o))
    for name, s in res.sections.items():
        for off in s.symbolic_expressions:
            if off not in expected.get(name, set()):
                issues.append(("expression-without-operand", {"sect": name, "pos": off}))
    return issues
