"""
./check <property-id> [--tier quick|thorough] [--replay FILE]

Flow (DESIGN.md §2.4):
 1. translator: regenerate lean/GtirbVerif/Gen/* from /repo's working tree
 2. lake build of the driver and of Props/<id>.lean (+ forbidden-token grep,
    `#print axioms` audit of every property theorem; thorough: leanchecker)
 3. corpus + generated cases: real code vs Lean model (correspondence) and
    real code vs specification (oracle)
 4. verdict.  exit 0 = held on everything explored; exit 1 + VIOLATION line;
    exit 2 = infrastructure problem (never a VIOLATION line).
"""
import argparse
import importlib
import json
import os
import sys
import time
import traceback

HERE = os.path.dirname(os.path.abspath(__file__))
sys.path.insert(0, HERE)
import common  # noqa: E402
from common import Ctx, log  # noqa: E402


def finding_matches(entry, v):
    if entry.get("property") != v_prop(v):
        return False
    return entry.get("sig") == v["sig"]


def v_prop(v):
    return v.get("prop")


def main():
    ap = argparse.ArgumentParser()
    ap.add_argument("prop")
    ap.add_argument("--tier", default=os.environ.get("VERIF_TIER", "quick"))
    ap.add_argument("--replay")
    args = ap.parse_args()
    prop = args.prop.upper()
    tier = args.tier if args.tier in ("quick", "thorough") else "quick"
    seed = int(os.environ.get("VERIF_SEED", "0") or 0)
    t0 = time.time()

    os.environ["PYTHONPATH"] = os.pathsep.join(
        [common.REPO_SRC, os.path.join(common.REPO, "tests"), os.environ.get("PYTHONPATH", "")]
    )
    sys.path.insert(0, os.path.join(common.REPO, "tests"))
    sys.path.insert(0, common.REPO_SRC)

    try:
        mod = importlib.import_module("props." + prop.lower())
    except ImportError:
        log(traceback.format_exc())
        print("ERROR: no runner for property %s" % prop)
        return 2

    lean_module = "GtirbVerif.Props." + prop
    proof_problems = []  # (kind, text)
    tie_problems = []

    # -- 1/2: translate, build, audit -------------------------------------
    axioms = {}
    with common.BuildLock():
        ok, out = common.run_extract(getattr(mod, "GEN", []))
        if not ok:
            tie_problems.append(("translator", out[-3000:]))
        ok, out = common.lake_build(["driver"])
        if not ok:
            # the driver (models + generated tables) must build for anything
            # else to run; a failure caused by regenerated tables is a broken tie
            tie_problems.append(("driver-build", out[-4000:]))
        okp, outp = common.lake_build([lean_module])
        if not okp:
            errs = [l for l in outp.splitlines() if "error" in l]
            proof_problems.append(("lake build %s failed" % lean_module, "\n".join(errs[:20]) or outp[-3000:]))
        forbidden = common.grep_forbidden(lean_module)
        if forbidden:
            proof_problems.append(("forbidden tokens", "\n".join(forbidden)))
        if okp:
            axioms, raw = common.audit_axioms(prop)
            for name, ax in axioms.items():
                if ax is None:
                    proof_problems.append(("audit: theorem not found", name))
                elif not set(ax) <= common.ALLOWED_AXIOMS:
                    proof_problems.append(("audit: axioms of %s" % name, ", ".join(ax)))
        checker_note = None
        if tier == "thorough" and okp:
            okc, outc = common.leanchecker([lean_module])
            checker_note = "leanchecker %s: %s" % (lean_module, "ok" if okc else "FAILED")
            if not okc:
                proof_problems.append(("leanchecker", outc[-2000:]))

    if not os.path.exists(common.DRIVER):
        print("ERROR: driver binary missing and could not be built")
        log(json.dumps(tie_problems)[:3000])
        # without a driver only the direct oracles can run
    obligations = len(axioms) if axioms else len(common.theorem_names(prop))
    discharged = sum(
        1 for a in axioms.values() if a is not None and set(a) <= common.ALLOWED_AXIOMS
    ) if not [p for p in proof_problems if p[0].startswith("lake build")] else 0

    # -- 3: explore ----------------------------------------------------------
    ctx = Ctx(prop, tier, seed)
    ctx.driver_ok = os.path.exists(common.DRIVER) and not [t for t in tie_problems if t[0] == "driver-build"]
    infra_error = None
    try:
        if args.replay:
            with open(args.replay) as f:
                mod.replay(ctx, json.load(f))
        else:
            mod.run(ctx)
    except Exception:
        infra_error = traceback.format_exc()
        log(infra_error)
    # a runner that could not even build or run some of its cases did not explore what it says it explored
    herr = {k: v for k, v in ctx.dist.items() if k.startswith("harness-error")}
    if herr and infra_error is None:
        infra_error = "the harness failed on %s cases: %s; %s" % (sum(herr.values()), herr, ctx.notes[:2])
        log(infra_error)

    broken = bool(proof_problems or tie_problems or ctx.mismatches)
    if broken and not ctx.violations and not args.replay and infra_error is None:
        # failing-input search: same exploration, larger budget, other seeds
        log("obligation broken (%s); searching for a failing input"
            % "; ".join([p[0] for p in proof_problems + tie_problems] or ["correspondence"]))
        for extra in range(1, 4):
            sctx = Ctx(prop, tier, seed + 7919 * extra)
            sctx.deep = True
            sctx.driver_ok = ctx.driver_ok
            try:
                mod.run(sctx)
            except Exception:
                log(traceback.format_exc())
            ctx.evaluations += sctx.evaluations
            ctx.distinct |= sctx.distinct
            ctx.mismatches += sctx.mismatches
            if sctx.violations:
                ctx.violations += sctx.violations
                break

    # -- 4: verdict ------------------------------------------------------------
    kf = common.load_known_findings()
    known = [e for e in kf.get("findings", []) if e.get("property") == prop]
    lines = []
    nviol = 0
    reported_known = set()
    seen_sigs = set()
    replay_n = 0
    for v in ctx.violations:
        entry = next((e for e in known if e.get("sig") == v["sig"]), None)
        if entry is not None:
            if v["sig"] not in reported_known:
                reported_known.add(v["sig"])
                lines.append("KNOWN-FINDING: property=%s %s" % (prop, entry.get("what", v["what"])))
            continue
        if v["sig"] in seen_sigs:
            continue
        seen_sigs.add(v["sig"])
        replay_n += 1
        path = common.write_replay(prop, replay_n, {
            "property": prop, "kind": "implementation-violates-specification",
            "signature": v["sig"], "what": v["what"], "case": v["case"],
            "replay_cmd": "./check %s --replay <this file>" % prop,
        })
        lines.append("VIOLATION property=%s replay=%s" % (prop, path))
        log("violation: %s" % v["what"])
        nviol += 1
    if nviol == 0 and broken and not args.replay:
        replay_n += 1
        path = common.write_replay(prop, replay_n, {
            "property": prop, "kind": "obligation-no-longer-checks",
            "proof_obligations": [{"what": a, "detail": b} for a, b in proof_problems],
            "tie": [{"what": a, "detail": b} for a, b in tie_problems],
            "correspondence_first_disagreements": ctx.mismatches[:5],
            "note": "no input was found on which the real code violates the specification",
        })
        lines.append("VIOLATION property=%s replay=%s no-failing-input-found" % (prop, path))
        nviol += 1

    # -- evidence -----------------------------------------------------------------
    wall = time.time() - t0
    cov = {
        "obligations": max(obligations, 1),
        "discharged": discharged,
        "checker_cmd": "cd lean && lake build %s  # then `#print axioms` of every theorem in Props/%s.lean%s"
        % (lean_module, prop, "; lake env leanchecker" if tier == "thorough" else ""),
        "trusted_base": common.TRUSTED_BASE + list(getattr(mod, "TRUSTED", [])),
        "theorems": {k.split(".")[-1]: v for k, v in axioms.items()},
        "evaluations": ctx.evaluations,
        "distinct_nontrivial": len(ctx.distinct),
        "rule": getattr(mod, "RULE", ""),
        "samples": ctx.samples[:6] or ["(no generated cases in this run)"],
        "input_distribution": ctx.dist,
        "correspondence_disagreements": len(ctx.mismatches),
        "known_findings_seen": sorted(reported_known),
        "source_fingerprint": _fingerprint(getattr(mod, "SOURCES", [])),
        "notes": ctx.notes + ([checker_note] if checker_note else []),
    }
    cov.update(ctx.extra)
    ev = {
        "property_id": prop,
        "tier": tier,
        "seed": seed,
        "level": "proof",
        "coverage": cov,
        "assumptions": list(getattr(mod, "ASSUMPTIONS", [])),
        "wall_s": round(wall, 2),
        "violations": nviol,
    }
    if not args.replay:
        os.makedirs(common.EVIDENCE, exist_ok=True)
        path = os.path.join(common.EVIDENCE, prop + ".json")
        with open(path, "w") as f:
            json.dump(ev, f, indent=1, default=str)
        okv, why = common.validate_evidence(path)
        if not okv:
            log("evidence does not validate: " + why)

    for l in lines:
        print(l)
    print(
        "%s tier=%s seed=%d: theorems %d/%d, cases %d (distinct %d), "
        "disagreements %d, violations %d, %.1fs"
        % (prop, tier, seed, discharged, obligations, ctx.evaluations,
           len(ctx.distinct), len(ctx.mismatches), nviol, wall)
    )
    if nviol:
        return 1
    if infra_error is not None:
        print("ERROR: harness failure (see stderr)")
        return 2
    return 0


def _fingerprint(files):
    import hashlib

    out = {}
    for rel in files:
        p = os.path.join(common.REPO_SRC, "gtirb_rewriting", rel)
        try:
            with open(p, "rb") as f:
                out[rel] = hashlib.sha256(f.read()).hexdigest()[:16]
        except OSError:
            out[rel] = "missing"
    return out


if __name__ == "__main__":
    sys.exit(main())
