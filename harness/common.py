"""
Shared machinery of the checks: building the Lean library, auditing axioms,
talking to the compiled Lean driver, collecting results, writing evidence and
replays, known findings.
"""
import fcntl
import hashlib
import json
import os
import random
import re
import subprocess
import sys
import time

HERE = os.path.dirname(os.path.abspath(__file__))
ROOT = os.path.dirname(HERE)
LEAN = os.path.join(ROOT, "lean")
OUT = os.path.join(ROOT, "out")
EVIDENCE = os.path.join(ROOT, "evidence")
REPO = os.environ.get("VERIF_REPO", "/repo")
REPO_SRC = os.path.join(REPO, "src")
PY = sys.executable
DRIVER = os.path.join(LEAN, ".lake", "build", "bin", "driver")

ALLOWED_AXIOMS = {"propext", "Classical.choice", "Quot.sound"}
FORBIDDEN = re.compile(
    r"\bsorry\b|\badmit\b|^axiom |native_decide|bv_decide|implemented_by|"
    r"\bunsafe |maxHeartbeats 0\b",
    re.M,
)

TRUSTED_BASE = [
    "Lean 4.33.0 kernel (thorough tier: re-checked with leanchecker)",
    "axioms allowed in property theorems: propext, Classical.choice, Quot.sound "
    "(audited with #print axioms on every run; no sorry/admit/axiom/native_decide/bv_decide)",
    "Lean compiler (the compiled driver runs the same definitions the theorems are about)",
    "harness/extract.py (translator: live Python objects -> Gen/*.lean)",
    "harness correspondence runners and canonicalisation",
    "hand-written specs in lean/GtirbVerif/Spec (reviewed against the property text)",
    "Python 3.12 and the pinned third-party packages the repo runs on",
]


def log(*a):
    print(*a, file=sys.stderr, flush=True)


# ---------------------------------------------------------------------------
# build + audit
# ---------------------------------------------------------------------------
class BuildLock:
    def __enter__(self):
        os.makedirs(OUT, exist_ok=True)
        self.f = open(os.path.join(OUT, ".build.lock"), "w")
        fcntl.flock(self.f, fcntl.LOCK_EX)
        return self

    def __exit__(self, *a):
        fcntl.flock(self.f, fcntl.LOCK_UN)
        self.f.close()


def run_extract(gens):
    """Regenerate Gen/*.lean from /repo. Returns (ok, output)."""
    env = dict(os.environ)
    env["VERIF_REPO_SRC"] = REPO_SRC
    env["PYTHONPATH"] = REPO_SRC + os.pathsep + env.get("PYTHONPATH", "")
    p = subprocess.run(
        [PY, os.path.join(HERE, "extract.py")] + list(gens),
        capture_output=True,
        text=True,
        env=env,
    )
    return p.returncode == 0, p.stdout + p.stderr


def lake_build(targets, timeout=3000):
    p = subprocess.run(
        ["lake", "build"] + list(targets),
        cwd=LEAN,
        capture_output=True,
        text=True,
        timeout=timeout,
    )
    return p.returncode == 0, p.stdout + p.stderr


def props_file(prop_id):
    return os.path.join(LEAN, "GtirbVerif", "Props", prop_id + ".lean")


def lean_sources_of(module):
    """Transitive closure of project-local imports of a module (file paths)."""
    seen = {}
    todo = [module]
    while todo:
        m = todo.pop()
        if m in seen:
            continue
        path = os.path.join(LEAN, *m.split(".")) + ".lean"
        if not os.path.exists(path):
            continue
        seen[m] = path
        with open(path) as f:
            for line in f:
                mm = re.match(r"\s*import\s+((?:GtirbVerif|Driver)\.[\w.]+)", line)
                if mm:
                    todo.append(mm.group(1))
    return seen


def strip_comments(src):
    # remove /- ... -/ (nested not handled beyond one level) and -- comments
    out = []
    depth = 0
    i = 0
    n = len(src)
    while i < n:
        if src.startswith("/-", i):
            depth += 1
            i += 2
        elif src.startswith("-/", i) and depth:
            depth -= 1
            i += 2
        elif depth:
            if src[i] == "\n":
                out.append("\n")
            i += 1
        elif src.startswith("--", i):
            while i < n and src[i] != "\n":
                i += 1
        else:
            out.append(src[i])
            i += 1
    return "".join(out)


def grep_forbidden(module):
    hits = []
    for m, path in sorted(lean_sources_of(module).items()):
        with open(path) as f:
            src = strip_comments(f.read())
        for mm in FORBIDDEN.finditer(src):
            line = src.count("\n", 0, mm.start()) + 1
            hits.append("%s:%d: %s" % (os.path.relpath(path, ROOT), line, mm.group(0)))
    return hits


def theorem_names(prop_id):
    """Fully qualified names of the theorems stated in Props/<id>.lean."""
    with open(props_file(prop_id)) as f:
        src = strip_comments(f.read())
    ns = "GtirbVerif.Props." + prop_id
    names = []
    for mm in re.finditer(r"^\s*(?:@\[[^\]]*\]\s*)?theorem\s+([\w.']+)", src, re.M):
        names.append(ns + "." + mm.group(1))
    return names


def audit_axioms(prop_id):
    """#print axioms for every property theorem. Returns
    (per-theorem dict name -> list of axioms | None when missing, raw log)."""
    names = theorem_names(prop_id)
    os.makedirs(OUT, exist_ok=True)
    tmp = os.path.join(OUT, "audit_%s_%d.lean" % (prop_id, os.getpid()))
    with open(tmp, "w") as f:
        f.write("import GtirbVerif.Props.%s\n" % prop_id)
        for n in names:
            f.write("#print axioms %s\n" % n)
    p = subprocess.run(
        ["lake", "env", "lean", tmp], cwd=LEAN, capture_output=True, text=True
    )
    os.unlink(tmp)
    text = p.stdout + p.stderr
    res = {n: None for n in names}
    # outputs: "'X' depends on axioms: [a, b]" or "'X' does not depend on any axioms"
    flat = re.sub(r"\s+", " ", text)
    for n in names:
        m1 = re.search(r"'%s' depends on axioms: \[([^\]]*)\]" % re.escape(n), flat)
        if m1:
            res[n] = [a.strip() for a in m1.group(1).split(",") if a.strip()]
        elif ("'%s' does not depend on any axioms" % n) in flat:
            res[n] = []
    return res, text


def leanchecker(modules):
    p = subprocess.run(
        ["lake", "env", "leanchecker"] + list(modules),
        cwd=LEAN,
        capture_output=True,
        text=True,
    )
    return p.returncode == 0, p.stdout + p.stderr


# ---------------------------------------------------------------------------
# driver
# ---------------------------------------------------------------------------
def ask_driver(requests, timeout=1200):
    """Send a batch of JSON requests to the compiled Lean driver, return the
    list of JSON answers (same order)."""
    if not requests:
        return []
    data = "\n".join(json.dumps(r, separators=(",", ":")) for r in requests) + "\n"
    p = subprocess.run(
        [DRIVER], input=data, capture_output=True, text=True, timeout=timeout
    )
    if p.returncode != 0:
        raise RuntimeError("driver failed: %s" % p.stderr[-2000:])
    lines = p.stdout.splitlines()
    if len(lines) != len(requests):
        raise RuntimeError(
            "driver answered %d lines for %d requests" % (len(lines), len(requests))
        )
    return [json.loads(x) for x in lines]


# ---------------------------------------------------------------------------
# results
# ---------------------------------------------------------------------------
class Ctx:
    """Collects what a property runner observed."""

    def __init__(self, prop_id, tier, seed):
        self.prop_id = prop_id
        self.tier = tier
        self.seed = seed
        self.rng = random.Random(seed * 1000003 + int(hashlib.sha256(prop_id.encode()).hexdigest()[:6], 16))
        self.evaluations = 0
        self.distinct = set()
        self.samples = []
        self.dist = {}
        self.violations = []  # impl vs spec: dicts(sig, what, case)
        self.mismatches = []  # impl vs model: dicts(what, case)
        self.notes = []
        self.extra = {}
        self.deep = False  # set during failing-input search

    def count(self, key, n=1):
        self.dist[key] = self.dist.get(key, 0) + n

    def case(self, key, sample=None, nontrivial=True):
        """Register one explored case. `key` identifies it for distinctness."""
        self.evaluations += 1
        if nontrivial:
            h = hashlib.blake2b(
                json.dumps(key, sort_keys=True, default=str).encode(), digest_size=8
            ).digest()
            self.distinct.add(h)
        if sample is not None and len(self.samples) < 6:
            self.samples.append(sample)

    def violation(self, sig, what, case):
        """The real code's output differs from the specification on `case`."""
        self.violations.append({"sig": sig, "what": what, "case": case})

    def mismatch(self, what, case):
        """The real code and the Lean model disagree on `case` (correspondence)."""
        self.mismatches.append({"what": what, "case": case})

    def budget(self, quick, thorough):
        n = thorough if self.tier == "thorough" else quick
        if self.deep:
            n *= 4
        return n


def load_known_findings():
    p = os.path.join(ROOT, "known_findings.json")
    if not os.path.exists(p):
        return {"findings": [], "fixed": []}
    with open(p) as f:
        return json.load(f)


def write_replay(prop_id, n, payload):
    d = os.path.join(OUT, "replays")
    os.makedirs(d, exist_ok=True)
    path = os.path.join(d, "%s-%d.json" % (prop_id, n))
    with open(path, "w") as f:
        json.dump(payload, f, indent=1, default=str)
    return path


def validate_evidence(path):
    """Validate against the schema with jsonschema from the tooling venv when
    present; otherwise a minimal structural check."""
    schema = "/root/.vp/EVIDENCE.schema.json"
    vt = "/opt/veriftools/pyvenv/bin/python"
    if os.path.exists(schema) and os.path.exists(vt):
        code = (
            "import json,sys,jsonschema;"
            "jsonschema.validate(json.load(open(sys.argv[1])),json.load(open(sys.argv[2])))"
        )
        p = subprocess.run([vt, "-c", code, path, schema], capture_output=True, text=True)
        if p.returncode != 0:
            return False, p.stderr[-1500:]
        return True, ""
    with open(path) as f:
        ev = json.load(f)
    for k in ("property_id", "tier", "seed", "level", "coverage", "wall_s"):
        if k not in ev:
            return False, "missing " + k
    return True, ""
