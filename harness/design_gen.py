#!/usr/bin/env python3
"""Regenerates the "as built" part of DESIGN.md (between the AS-BUILT markers) from what is in
the tree: the header of each Props/<id>.lean, the runner's RULE / ASSUMPTIONS / TRUSTED,
known_findings.json and seeded/<id>/*/meta.json.  Run: python3 harness/design_gen.py"""
import importlib
import json
import os
import re
import sys

ROOT = os.path.dirname(os.path.dirname(os.path.abspath(__file__)))
sys.path.insert(0, os.path.join(ROOT, "harness"))
sys.path.insert(0, "/repo/tests")


STATIC = """
### 9.2 What became of the defects listed in §5, and of those found later

| §5 # | prop | disposition |
|---|---|---|
| 1 | C15 | fixed, e2d97de (`pop(register, None)`) |
| 2 | C09 | fixed, 5d68536 (the reference cache is applied before a patch is assembled) |
| 3 | C03 | fixed, fc84943 (`join_blocks` drops the dead fallthrough of an empty continuation block); the follow-up f48d078 connects the empty tail after an edit at a terminator |
| 4 | C11 | dependency finding, not a gtirb-rewriting defect: `gtirb_layout.layout_module` iterates `module.sections`, a set of id-hashed nodes, so the relative placement of *sections* can differ between processes when a rewrite changes sizes in a module with several sections. The C11 check compares runs section by section (block order, bytes, symbols, CFG, aux tables are compared exactly; absolute addresses are compared relative to the section start) and says so in its ASSUMPTIONS; nothing is suppressed inside gtirb-rewriting |
| 5 | C04 | fixed, e6bd759 |
| 6 | C05 | fixed, 5deaf12 |
| 7 | C16 | fixed, b445f68 |
| 8 | C17 | fixed, 21d1048 |
| 9 | C17 | known finding `C17:x86-symbol-argument-is-loaded-not-its-address` (the behaviour is asserted by the repo's own test) |
| 10 | C17 | fixed, e1ed27b |
| 11 | C17 | known finding `C17:x64-stack-integer-outside-imm32` |
| 12 | C18 | known finding `C18:retargeting-a-call-target-leaves-the-return-edges-of-both-functions` |
| 13 | C07 | known finding `C07:scope-designates-a-zero-sized-code-block` |
| 14 | C08 | fixed, cf77143 (closed upper end of the procedure interval); 5bef6ec keeps the initial-state directives with `.cfi_startproc` |
| 15 | C13 | known finding `chunk-boundary-outside-.text-restarts-in-.text` (RewritingContext depends on the behaviour for its epilogue) |
| 16 | C19 | fixed, 0701164 |
| 17 | C18 | fixed, 551aa96 |
| 18 | C15 | fixed, 8e4c51e |
| "also noted" | C01 | `_can_remove_block` tested `elf_dynamic_fini` twice: fixed, d4827ab, after the generator was given DT_INIT/DT_FINI blocks and C01 reproduced the AssertionError |

Found by the machinery after §5 was written (details in `known_findings.json`): C20 4bd7a09, C02 bbbe5d4, C01 1d7a580,
C03 f726253, C10 4d21752, C11 7fecb12, C12 39c6e81 (all fixed); C01 insert at the end of a wholly deleted block, C02
two label findings, C03 three return-edge findings, C12 MIPS `b` pseudo and empty `.ascii` before a label (recorded).
The remaining "also noted" items of §5 (`reads_registers ∩ clobbers_registers`, x86 `align_stack` without
`clobbers_flags`, `_ExprEncoder.decode` overrun on malformed input) are outside the wording of the properties
and are not claimed either way.

### 9.3 How a check decides, as built

`./check <ID>`: (1) `harness/extract.py` regenerates `lean/GtirbVerif/Gen/*.lean` from /repo's working tree (tables
of the DWARF encoders, ABI register files, calling conventions - the parts of the model that are data); (2) `lake
build` of the driver and of `Props/<ID>`; a build failure that comes from a regenerated table is a broken proof
obligation, any other build failure is an infrastructure error (exit 2); (3) the forbidden-token scan and `#print
axioms` for every theorem of `Props/<ID>.lean` - anything beyond `propext`, `Classical.choice`, `Quot.sound` fails
the check; (4) the runner: real code against the compiled model (disagreement = broken correspondence) and against
the executable specification / direct oracle (a failing case = violation with that case as replay). A broken
proof or correspondence for which the oracle found no failing input is reported as `VIOLATION ...
no-failing-input-found`, with the theorem or the disagreeing case named in the replay file. Known findings are
matched by signature; a violation whose signature is not listed exits 1.

### 9.4 Where the built machinery differs from §§2-8

* File names: the correspondence runners are `harness/props/cNN.py` (one per property, each with `GEN`, `SOURCES`,
  `RULE`, `ASSUMPTIONS`, `TRUSTED`, `run`, `replay`), the canonical dumps are `harness/irdump.py`, the shared
  engines `harness/emodify.py` + `harness/listing_engine.py` (E-modify) and `harness/asm_engine.py` (E-asm); there is
  no `corr_*.py` / `canon.py`.
* Not built: the recording pytest plugin that would replay the repo's own suite through the models; automatic
  shrinking of failing cases (replays are the generated case as it failed; the minimal witnesses in
  `corpus/` and `known_findings.json` were minimised by hand); line-coverage measurement of the modelled files
  (the evidence reports the input distribution - sizes, operation kinds, refusal classes, configurations - but not
  Python line coverage).
* Built as designed: translator, `lake build`, forbidden-token scan, `#print axioms` audit on every run,
  `leanchecker` in the thorough tier, failing-input search with a larger budget and other seeds when a proof or the
  correspondence breaks, `no-failing-input-found` verdicts, known-finding signatures, exit 2 for infrastructure
  errors (including a runner that could not build or run some of its own cases).
* A gap in the tie, found and closed in round 5: after the repair cd66bc9 (`_add_other_section_contents`) the Lean
  model still kept the table entries of the dropped trailing block, and no runner replayed such an insertion on the
  model - the shared campaign has no patches with CFI or alignment at the end of an extra section, and C05's runner,
  which has them, compared only the final module with the validator. C05's runner now replays every recorded
  `insert`/`delete` of its own cases on the model as well (6 disagreements on the first run, all this one), and the
  model follows the repaired code. The lesson is the general one of this technique: a path the correspondence does not
  exercise is a path on which the model is only a claim.
* Whole-rewrite invariants added in round 5 (all with executable forms of their premises that the driver evaluates on
  every recorded state): `Lemmas/IRSymClosed.lean` - no symbol is left on a block that left the module and the block
  ordering lists attached blocks of the right section once per chain (C02, C05, C09); `Lemmas/IREntries.lean` - no
  block in two functions, entries are blocks of their function (C06); `Lemmas/IRExprs.lean` - symbolic expressions name
  symbols of the module (C05). For the CFG ("no edge at a block that left the module") there are per-operation theorems only
  (`Lemmas/IRCfgJoin.lean`: join leaves no edge on the absorbed block; remove leaves no edge into the removed block,
  and none out of it when no return edge left it): in the model, as in the code, `_remove_outgoing_edges` gives a
  removed block that both calls and returns for the callee's function a fresh return edge to a proxy; excluding that
  over whole rewrites needs an invariant on edge kinds per block that every other step would have to maintain, so over
  whole rewrites the clause stays with the oracle (C03, C05).
* No source hook was needed: `MANIFEST.hooks` is empty, all observation points are wrapped from the harness
  (`gtirb_rewriting.rewriting.insert/delete`, the `_Streamer` / `_SymbolCreator` methods, `make_return_cache`).
* E-modify is x86-64 only (ELF, and PE for the module-level tables); the assembler engine covers x86-64 (AT&T and
  Intel), IA32, ARM64 and MIPS32, ELF and PE; the ABI engine covers all five registered ABIs; the DWARF engine both
  byte orders and pointer sizes.

* Added in round 6 to the model and its tie: `Model/Rewrite/Store.lean` - `_ModificationStore` and the scope classes,
  with theorems on what the store hands out and on `resolve_offsets` (permutation, listing order, refusal exactly on
  overlap) and a correspondence run of the real store on every block of generated modules (C07, which had no model of
  the resolution code before); `Lemmas/JoinPad.lean` - `join_byte_intervals` with alignment demands and uninitialized
  tails: what is added is fill and padding of the right kind, placed bytes and blocks stay, the aligned block lands on
  its boundary, for one appended interval and for the whole loop (C10, whose round trip was proved without alignment
  only). The recorder of E-modify judges the block ordering a rewrite starts with against the layout (it used to be
  input of the model only).

### 9.5 Seeded changes

Six rounds, 360 changes in all, were written by sub-agents - one agent per property and round. Each agent saw only
the property's text (statement, quantifier, code anchors) and a scratch git worktree of /repo, never /verif. Each
change passes the repo's suite (331 tests) and comes with a demonstration script that exits 1 on the changed tree and
0 on the unchanged one (both verified again here). Every change was applied to /repo's working tree, the property's
quick check was run, and the change was reverted (`harness/seeded_eval.py` repeats this; nothing was ever committed
to /repo; the later evaluations ran in scratch worktrees through `VERIF_REPO`). They are kept under
`seeded/<id>/mK` (round 1), `r2mK`, `r3mK`, `r4mK`, `r5mK` and `r6mK` with `patch.diff`, `demo.py` and `meta.json`;
`meta.json.history` records the verdict of every evaluation. Two changes are marked `obsolete`: a later repair of
/repo made them harmless (their own demonstration passes on the changed tree) - C08/r4m1 and C10/r3m2.

* Round 1, first evaluation: 38 of 60 caught with a failing input, 3 caught only as a broken correspondence
  (`no-failing-input-found`), 19 missed. Round 2 (after the round-1 strengthening), first evaluation: 43 of 60 caught
  with a failing input, 1 only as a broken correspondence, 16 missed. Round 3 (agents told that the obvious
  one-line changes had been tried): 50 of 60 caught with a failing input at the first evaluation, 10 missed.
  Round 4 (agents pointed at interactions of features, unusual but legal inputs, helpers outside the anchored files,
  state carried from one request or rewrite to the next): 43 of 60 caught with a failing input, 2 only as a broken
  correspondence, 15 missed.
* Detection must not hang on a lucky seed: the whole set was also run with `VERIF_SEED=1` (the seed of `vp check`);
  the two changes that were caught with one seed and missed with another got a deterministic or targeted
  generator (C06 entry in front of foreign code, C14 nested expressions of 128 bytes or more).
* Every miss was traced to the reason the check could not see the change, and the check - never the property - was
  changed. The recurring reasons were: (a) generator blind spots - tables always filled in ascending offset order,
  no scope-wide registrations mixed with `insert_at`, no module-level tables (PE safe-SEH, DT_INIT/DT_FINI), no
  `register_insert_function`, no zero-sized blocks in the input, no second section or byte interval, no
  partly-initialized intervals, no overlapping blocks, no blocks that start behind uncovered bytes, function names
  that are not regular-expression look-alikes, no operands with both an addend and a target-specific variant, no
  memory-indirect jumps, no patch constraints, no suffixes in the assembler runs; (b) oracles that took a value from
  the code under test where the property gives it independently - the set of registers to restore (C16), the
  patch's own expressions (C04), which recorded operation belongs to which request (C01), attribute conversion and
  edge retargeting (C18), untouched expressions (C19); (c) a domain predicate that was too coarse (C03/C09 judged
  "code runs off the end" per request instead of on the final state of the block).
* The round-4 misses were again generator blind spots and one oracle gap: no ISA with a nop wider than a byte in
  the byte check (C01), aux tables that are always present (C04, C10), no patch carrying aligned data (C05), no CFG
  edge without a label (C07), no directive accounting for deletions (C08), no chain of whole-block deletions with
  several labels (C09), scratch registers that never showed in the bytes and no second rewrite in the same process
  (C11), powers of two missing from the constant pool (C14), no code outside every function (C16), no transfers
  through memory, no valid request refused, no retarget combined with a symbol deletion (C18), no hidden version
  entries (C19); and the out-of-domain filter of C03 also switched off the one clause that holds for every rewrite.
* Round 5 (agents told what four rounds had already covered and asked for changes in interface glue, refusal paths,
  features used together, and code outside the anchored files): 38 of 60 caught with a failing input at the first
  evaluation, 1 only as a broken correspondence, 20 missed, 1 crashed the runner. The reasons, again generator blind
  spots with two oracle gaps: no registration that the interface refuses (a refused request that stays registered,
  C01), no `delete_function` (C02), no `retarget_symbol_uses` in the same context as edits (C03, C09, C11), no patch
  with code in a second executable section (C03), no `.align` directly in front of a label (C05), no code patch
  into data behind a function (C06), no `register_insert_function` next to scope registrations and no block that
  starts behind uncovered bytes (C07), no directive behind a terminator in front of an unreferenced label (C08), no
  comparison of what a *refused* batch leaves behind (C09), padding bytes not compared with the listing and no
  decode mode (C10), no command-line driver (C11), the module entry point (C12), a module symbol named like a
  temporary label (C13), escapes encoded by the code under test (C15), the same patch twice and explicit
  `constraints=` (C16), shifted version ids (C19). Each got a generator or an independent oracle; the emodify case
  format gained `refused`, `fn` (one `delete_function` call), `retargets`, `insert_functions`, `empty_sections`
  and the `loop` instruction.
* After the strengthening the whole set of 298 live changes was evaluated again under two seeds: with `VERIF_SEED=0`
  294 were caught with a failing input and 4 missed (C03/r5m1 = C09/r5m2, C10/r5m2, C11/r2m3), with `VERIF_SEED=1`
  296 and 2 (C04/r4m3 = C04/r5m3) - all of them changes whose failing input a random generator produced under one
  seed and not under another. Each got a deterministic share of targeted cases (retarget of a deleted block, an
  emptied interval in front of an aligned block, empty neighbours, a kept placeholder that carried comments) and was
  confirmed caught under both seeds. None was caught only as a broken correspondence. The per-property lists above show each change and 
  every verdict. What the strengthened checks (and two side remarks of seeding agents, reproduced before anything
  was done about them) found on the *unchanged* tree is in `known_findings.json`: the DT_INIT typo in
  `_can_remove_block` (repaired, d4827ab); a label at the end of a patch moved behind the bytes that follow the
  insertion point (repaired in `are_joinable`, efbce7a - the hypothesis `join_moves_no_symbol` needed was exactly
  this input); a patch calling one function twice got one return edge (repaired, 190d75d); the missing fallthrough
  edge when a batch removes a block's terminator - or appends code that does not end in one - and then inserts code
  at that same end (recorded, C03). The fourth round's agents were asked to report inputs on which the unchanged
  tree already violates the property; every report was reproduced, judged against the property's text and then
  either repaired, recorded with a witness the check runs, or listed in §9.6. Repaired: BlockOrdering consumed a
  one-shot iterable twice and accepted a block twice in one call (40225f1, 90f19e7 - the `Nodup` hypothesis of
  `ordering_insert_after` marked the spot; the model now refuses duplicates and the theorem says so); an ELF module
  without an alignment table ignored a patch's `.align` (bf2abe1); MIPS32's temporary-label prefix was not
  temporary for the assembler (b42451a); `.zero 0` behind an unreachable label tripped an assertion (d0ba9e3); CFI
  directives of several empty patch blocks were merged in reverse (0ef3f24) and those of a removed empty block were
  dropped (d9afb4f - `empty_block_keeps_all`); code inserted behind a patch that ends in data belonged to no function
  (42a7576 - `IR.loopInsert`). Round 5, repaired: a read register outside the scratch pool or also clobbered made
  `_allocate_patch_registers` die in `list.remove` (1c07dac; the model's `removeAll` and `removeAll_err` follow); a
  section without byte intervals made every `apply()` lay the whole module out again from address 0 (79678e5); the
  empty block dropped at the end of a patch's second section stayed in cfiDirectives/alignment/encodings (cd66bc9);
  which of two symbols of one name a patch binds to depended on set order (65bdcea); `retarget_symbol_uses` left
  the Branch edge of a `loop A` instruction on A (793ca62). Round 5, recorded: the C18 return-edge finding seen
  through C03's return clause (corpus/emodify/14), the boundary `.cfi_endproc .cfi_startproc` at a block end that
  slides behind the next block's entry patch after a patch ending in an internal call (corpus/c08/02).
  Recorded with witnesses in round 4: C03 (two), C05, C08, C09, C10, C16. A false alarm of C11 on the unchanged tree (unlaid-out modules with several
  sections: patch ids follow the section order `gtirb_layout` happens to choose) was found by the clean-tree sweep
  under `VERIF_SEED=1` and removed by keeping that variation to one section; a false alarm of C03's specification
  (a return edge to the proxy that replaced a proxy-deleted return site) was found by the thorough tier and the
  specification corrected. One specification clause was relaxed with the reason stated in the runner's
  ASSUMPTIONS (C05: a patch's branch-target label at the very end of its byte interval has to stay on a zero-sized
  block; C08: an insertion exactly at a `.cfi_startproc` that is keyed to the end of the preceding block is not
  judged for coverage). False alarms of round 5, found by running the strengthened checks on the unchanged tree
  with several seeds and in the thorough tier before anything was committed, and removed in the oracle (never
  listed as findings): C10's decode-mode oracle took "the block that ends where the padding begins" although
  nested views and empty blocks may end there in several modes (now: one of theirs); the listing specification took
  the first alignment request at a piece's first aligned offset where a block's own `.align` and a patch's request
  coincide (now the strictest, `firstAlign`); C07 cases with uncovered leading bytes kept alignment entries that did
  not hold before the rewrite; C08's directive accounting counted a procedure deleted as a whole across adjacent
  ranges; C05 flagged the zero-sized tail of a recorded whole-block deletion.

* Round 6 (agents given the one-line summaries of everything tried before, so that they look elsewhere; 20 agents in
  parallel, three changes each): at the first evaluation 29 of the 57 changes evaluated then were caught with a failing input, 4 only as a broken correspondence, 23 were missed and one (C13/r6m1, which renames the method the recorder wraps) made the runner fail - the recorder now tolerates a missing observation point and reports it as a broken correspondence; the three C20 changes were first evaluated after the strengthening, where two of them and C07/r6m2 turned out to stall the check (a self-retarget makes the real ReferenceCache loop forever; a class-level list makes every further rewrite slower) - a history the real code does not finish within ten seconds is now a failing history, and exploration stops once twenty failing inputs are at hand. The misses were once more blind spots of the
  generators and two oracles that read a value from the code under test: no two functions of one name for an
  ENTRYPOINT_NAME filter (C07), no scope registrations in C01's byte check and no CFI-bearing cases in C04's table
  check (both now run a share of C07's and C08's cases), no module that already holds an empty block in front of a
  non-empty one (C02, C05 - and the block ordering the caches *start* with was taken from the cache and handed to the
  model, so a wrong initial ordering agreed with itself; the recorder now judges it against the layout), no custom table
  lists in split/join (C10), no symbol deletion asked for twice in both orders and no two aligned blocks in one
  re-joined interval (C11), no ELF relocation variant but @GOTPCREL and no lone NUL string (C12), no definition by
  assignment, no author-numbered labels and no Assembler object used twice (C13), no instruction rendered, changed and
  rendered again (C14), no context with a DEBUG logger and no direct count of the scratch registers handed out (C16),
  no one-shot iterable as argument list (C17), no fixed-width ISA and the ABI's attribute table read from the code
  (C18 - the oracle now uses the psABI's table written down in the runner), no retarget and deletion of one symbol in
  one context (C19). After the strengthening the whole round was evaluated again under `VERIF_SEED=1` (the three stalling changes once more under seed 0 after their repair): 54 of 60 caught with a failing input, 2 only as a broken correspondence (C02/r6m1 - caught with a failing input once the recorded end-label finding was recognised on its input instead of on the outcome alone - and C03/r6m2), 4 missed.
  Not caught and left so, with the reason: C02/r6m3 (a label at the very end of a patch's extra section inside an
  explicit CFI procedure of an inserted function - the generator has no inserted functions with cold sections that end in
  a label), C05/r6m2 (two sections of one name, one of them without byte intervals - the builder names sections
  uniquely), C06/r6m3 and C11/r6m1 (reachable only through the internal `_modify` API on one cache, or through a function
  whose returning blocks carry different return edges, which the builder's CFG never has).
  A false alarm of this round: the recorded C02 finding 'end label captured by the proxy' used to be matched on the
  outcome alone, which hid C02/r6m1 behind it; recognising it on the input (function-less block, or a patch ending in a
  label) was too narrow - the thorough tier on the unchanged tree found a third shape (a batch that puts a `ret` at the
  block's end) - and was widened to 'the batch puts code into the label's block' before the clean-tree sweep was
  accepted. What the agents reported about the
  *unchanged* tree is in `notes/round6/`; the one that a check now reproduces is recorded (C13: a patch with the
  labels `.Lr` and `.Lr_2` cannot be inserted three times), the others repeat §9.6 or are listed there.

### 9.6 Observed on the unchanged tree, outside what the checks exercise

Reported by the round-4 and round-5 seeding agents (scripts reproduced here), judged genuine or arguable, and *not* turned into
checks - each would need an engine the machinery does not have, or lies at the edge of a property's quantifier.
They are not in `known_findings.json` because no check produces them; they are listed so that nobody takes the
silence of the checks for a claim.

* C01/C11 - `gtirb_layout.layout_module` (a dependency, called by `prepare_for_rewriting` when intervals overlap or
  have no address) walks sets of identity-hashed nodes: when several byte intervals of a section, or several
  sections, have to be placed, their order by address differs from run to run. The C11 check compares addresses
  relative to the section start and generates unlaid-out modules with one section only; the C01 listing is per byte
  interval. A repair belongs in gtirb_layout.
* C01 - `replace_at` with a patch whose assembly text is empty leaves the replaced range in place
  (`if not assembler_result: continue`; `Patch.get_asm` documents "if None is returned, no insertion takes place",
  and the empty string is treated the same way).
* C02/C05 - byte intervals with overlapping blocks: `edit_byte_interval` (its own TODO) moves only blocks that
  start behind the edit, and `join_byte_intervals` starts padding behind the block with the highest offset; the
  listing the properties speak of has no overlapping blocks, and the generators of E-modify produce none.
* C04 - `cfiDirectives` entries keyed by a ByteInterval (the quantifier names them; ddisasm does not produce them)
  are not moved by `edit_byte_interval`/`split_byte_interval`/`join_byte_intervals`; the model's CFI table is keyed
  by block. Two RewritingContexts applied one after the other create the same suffixed temporary label twice
  (`.L_loop_1`); likewise a module that already holds a symbol named like a suffixed label (C13 checks the
  unsuffixed name only).
* C07 - MIPS32: `BlockPosition.EXIT` lands between `jr $ra` and its delay slot (only the last instruction is taken
  off as terminator); E-modify and the scope specification are x86-64 only.
* C12 - `.section foo` without flags (ELF) and IA32 `callw *%ax` trip assertions; `call *foo(%rip)` to an external
  gets a PLT attribute on its memory operand.
* C13 - a constant assignment (`.Lc = 5`) in one chunk used in a later chunk yields a symbolic operand where the
  concatenated text folds the constant (assignments are outside the generated vocabulary).
* C16 - with `align_stack` the x86 prologue's `and` changes the flags even when the patch did not declare them
  clobbered (the statement asks for restoring declared clobbers). (The ValueError from `list.remove` for a register
  named both in `clobbers_registers` and `reads_registers`, noted here after round 4, was repaired in round 5:
  1c07dac.)
* C18 - MIPS32 `jal A`: capstone puts `jal` in neither the jump nor the call group, so the operand is retargeted
  and the Call edge stays (the retarget engine is x86-64).
* C20 - `OffsetMapping.clear()` (inherited, not among the operations the property lists) leaves empty per-element
  dictionaries behind.

Round 5 (same procedure; items that repeat the list above are not repeated):

* C02 - a symbol with an integral payload in the middle of a block (`assign_integral_symbols` turns it into a
  zero-sized block inside the big one): deleting the bytes around it leaves the three labels inside the block in
  front. Overlapping/nested blocks again; the listing has none.
* C06 - the nop block `join_byte_intervals` adds for alignment between two blocks of one function belongs to no
  function (C03 and C10 treat padding as transparent; C06's oracle does not ask for its membership).
* C09/C05 - after a *refused* batch the byte intervals are left split and keep the addresses they had before the
  first request grew one of them: they overlap by address (the module is closed and serializable, which is what
  C05 asks; C09's comparison of refused batches looks at edges, symbols, proxies and function tables only).
* C10 - when sections collide after a rewrite, `gtirb_layout.layout_module` places each interval by the alignment
  of its first aligned block only: a second aligned block further inside the interval (alignments 4 and 16 in one
  interval) can lose an alignment that held before. The C10 finding about `join_byte_intervals` is the same rule
  inside gtirb-rewriting; this one is the dependency's.
* C11 - two `register_insert_function` requests registered in the other order swap the numeric suffixes of their
  temporary labels (the patch counter follows registration order there, address order elsewhere), and where
  `gtirb_layout` puts the two new intervals is set-order dependent anyway.
* C12 - MIPS32 `jalr.hb` does not end its block (not in the generated vocabulary).
* C13 - error paths of the assembler that the property does not name: with a diagnostic callback that swallows
  errors, redefining a module name ends in KeyError; a chunk refused with UndefSymbolError leaves its pre-created
  labels behind, so the corrected chunk is refused as a redefinition; `register_insert_function('f')` on a module
  that defines `f` creates a second symbol of that name (the TODO in the source).
* C14/C15 - truncated input: `Instruction.decode(b'')` returns a nop and `Operation.decode` reads a 2-byte operand
  from 1 byte (the properties quantify over encodings of accepted operands); a truncated `.cfi_escape` leaves
  `evaluate_cfi_directives` with EOFError or, for a short fixed-width operand, a state (C15's list of ill-formed
  sequences does not include malformed escape bytes); `.cfi_startproc` on the PE ABIs raises NotImplementedError.
* C17 - a custom IA32 convention that asks for 16-byte alignment with `align_stack`: the prologue's two pushes
  behind the `and` leave esp at 8 mod 16 (IA32's own convention asks for 4); `CallPatch(second of two symbols
  named helper)` calls the first (names, not symbols, go through the assembler; after 65bdcea the choice is at least
  repeatable).
* C18 - MIPS32 `jal A` (see above; `bal` is covered by 793ca62).

Round 6 (same procedure; `notes/round6/<id>-observations.md` has each with its script):

* C04/C13 - two RewritingContexts on one module (what PassManager does for consecutive passes) both start the suffix of
  temporary labels at `_1`: two symbols named `.Lskip_1` (repeats the round-5 item; now with a script).
* C05 - a RewritingContext that is given fewer functions than the aux data describes (e.g. `[]`) leaves a deleted block in
  functionBlocks (the cache is built from the functions it is given).
* C06 - `are_joinable` answers "block1 is empty" before it looks at functions: the empty tail split off the end of one
  function's block joins with the entry block of the next function (internal API only; `apply()` never offers that pair).
* C08 - deleting a whole block drops ordinary directives at its displacement 0 although they describe the state after the
  previous block's last instruction (deleting only a prefix of the block keeps them).
* C09 - with two symbols of one name the assembler chooses by the referent's address at assembly time; inside a batch a
  block created by an earlier patch has an address that overtakes later blocks, so batch and one-at-a-time differ.
* C10 - padding behind a code block that contains a nested data block is zeros inside a DataBlock (the "last block" is
  chosen by offset order, not by where it ends).
* C11 - `get_or_insert_extern_symbol` chooses arbitrarily between two same-named symbols; a name-pattern scope on a
  function with two name symbols and no functionNames entry matches or not by set order.
* C12 - LLVM's own temporary labels (`.Ltmp0`) collide across `assemble()` calls; a backward numeric label (`1: ... jmp 1b`)
  and negative addends (`.quad foo-4`) are refused.
* C15 - `.cfi_startproc` on the PE ABIs raises NotImplementedError; an escaped expression that runs past its declared length
  is accepted.
* C16 - a context created with `[]` as functions that inserts a call into a leaf function makes the first later context
  that sees the function record it as non-leaf: later patches push into its red zone.
* C20 - `retarget_references(C, B)` while a `get_references(B)` iterator is suspended half-way loses the newly linked trees.

"""

BEGIN = "<!-- BEGIN AS-BUILT (generated by harness/design_gen.py; edit the sources, not this part) -->"
END = "<!-- END AS-BUILT -->"


def props_header(pid):
    p = os.path.join(ROOT, "lean", "GtirbVerif", "Props", pid + ".lean")
    if not os.path.exists(p):
        return ""
    s = open(p).read()
    m = re.search(r"/-!\n(.*?)\n-/", s, re.S)
    return m.group(1).strip() if m else ""


def theorem_names(pid):
    p = os.path.join(ROOT, "lean", "GtirbVerif", "Props", pid + ".lean")
    if not os.path.exists(p):
        return []
    return re.findall(r"^theorem\s+([A-Za-z0-9_.']+)", open(p).read(), re.M)


def main():
    props = [json.loads(l) for l in open(os.path.join(ROOT, "properties.jsonl"))]
    kf = json.load(open(os.path.join(ROOT, "known_findings.json")))
    out = [BEGIN, "", "## 9. As built", "",
           "This part is regenerated from the tree. §§1–8 above are the design written before the code; where the two "
           "differ, this part says what exists. Every property is claimed; `not_applicable` is empty.", ""]
    out += ["### 9.1 Per property", ""]
    for p in props:
        pid = p["id"]
        out.append('<a id="%s"></a>' % pid.lower())
        out.append("#### %s — %s" % (pid, p["title"]))
        out.append("")
        hdr = props_header(pid)
        if hdr:
            hdr = re.sub(r"^# .*\n", "", hdr).strip()
            out.append(hdr)
            out.append("")
        names = theorem_names(pid)
        if names:
            out.append("Theorems audited by `#print axioms` on every run (%d): %s." % (len(names), ", ".join("`%s`" % n for n in names)))
            out.append("")
        try:
            mod = importlib.import_module("props." + pid.lower())
        except Exception as e:  # noqa: BLE001
            mod = None
            out.append("(runner not importable here: %s)" % e)
        if mod is not None:
            out.append("**What a run explores.** " + getattr(mod, "RULE", ""))
            out.append("")
            if getattr(mod, "ASSUMPTIONS", None):
                out.append("**Relaxations and provisos of the check** (each one is a place where the check demands less than a naive reading, and why):")
                for a in mod.ASSUMPTIONS:
                    out.append("- " + a)
                out.append("")
            if getattr(mod, "TRUSTED", None):
                out.append("**Trusted for this property, beyond §7:** " + "; ".join(mod.TRUSTED) + ".")
                out.append("")
        mine = [f for f in kf["findings"] if f["property"] == pid]
        if mine:
            out.append("**Known findings (recorded, not repaired):**")
            for f in mine:
                out.append("- `%s` — %s" % (f["sig"], f["what"]))
            out.append("")
        fixed = [f for f in kf["fixed"] if ("property=%s " % pid) in f]
        if fixed:
            out.append("**Repaired in /repo (`fix:` commits):**")
            for f in fixed:
                out.append("- " + f[len("fixed: "):])
            out.append("")
        sd = os.path.join(ROOT, "seeded", pid)
        if os.path.isdir(sd):
            rows = []
            for k in sorted(os.listdir(sd)):
                mp = os.path.join(sd, k, "meta.json")
                if os.path.exists(mp):
                    m = json.load(open(mp))
                    rows.append("- `seeded/%s/%s` — %s → %s" % (pid, k, m.get("summary", ""), m.get("result", "not evaluated")))
            if rows:
                out.append("**Seeded changes (written by sub-agents that saw only the property text):**")
                out += rows
                out.append("")
    out.append(STATIC)
    out.append(END)
    text = "\n".join(out) + "\n"
    path = os.path.join(ROOT, "DESIGN.md")
    s = open(path).read()
    if BEGIN in s:
        s = s[:s.index(BEGIN)] + text + s[s.index(END) + len(END):].lstrip("\n")
    else:
        i = s.index("## Appendix A")
        s = s[:i] + text + "\n---------------------------------------------------------------------------\n\n" + s[i:]
    open(path, "w").write(s)
    print("DESIGN.md: as-built part regenerated (%d lines)" % len(out))


if __name__ == "__main__":
    main()
