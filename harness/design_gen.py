#!/usr/bin/env python3
"""Regenerates the "as built" part of DESIGN.md (between the AS-BUILT markers) from what is in
the tree: the header of each Props/<id>.lean, the runner's RULE / ASSUMPTIONS / TRUSTED,
known_findings.json and seeded/<id>/*/meta.json.  Run: python3 harness/design_gen.py"""
import importlib
import json
import os
import re
import sys

ROOT = os.path.dirname(os.path.dirname(os.path.abspath(__file__)))
sys.path.insert(0, os.path.join(ROOT, "harness"))
sys.path.insert(0, "/repo/tests")


STATIC = """
### 9.2 What became of the defects listed in §5, and of those found later

| §5 # | prop | disposition |
|---|---|---|
| 1 | C15 | fixed, e2d97de (`pop(register, None)`) |
| 2 | C09 | fixed, 5d68536 (the reference cache is applied before a patch is assembled) |
| 3 | C03 | fixed, fc84943 (`join_blocks` drops the dead fallthrough of an empty continuation block); the follow-up f48d078 connects the empty tail after an edit at a terminator |
| 4 | C11 | dependency finding, not a gtirb-rewriting defect: `gtirb_layout.layout_module` iterates `module.sections`, a set of id-hashed nodes, so the relative placement of *sections* can differ between processes when a rewrite changes sizes in a module with several sections. The C11 check compares runs section by section (block order, bytes, symbols, CFG, aux tables are compared exactly; absolute addresses are compared relative to the section start) and says so in its ASSUMPTIONS; nothing is suppressed inside gtirb-rewriting |
| 5 | C04 | fixed, e6bd759 |
| 6 | C05 | fixed, 5deaf12 |
| 7 | C16 | fixed, b445f68 |
| 8 | C17 | fixed, 21d1048 |
| 9 | C17 | known finding `C17:x86-symbol-argument-is-loaded-not-its-address` (the behaviour is asserted by the repo's own test) |
| 10 | C17 | fixed, e1ed27b |
| 11 | C17 | known finding `C17:x64-stack-integer-outside-imm32` |
| 12 | C18 | known finding `C18:retargeting-a-call-target-leaves-the-return-edges-of-both-functions` |
| 13 | C07 | known finding `C07:scope-designates-a-zero-sized-code-block` |
| 14 | C08 | fixed, cf77143 (closed upper end of the procedure interval); 5bef6ec keeps the initial-state directives with `.cfi_startproc` |
| 15 | C13 | known finding `chunk-boundary-outside-.text-restarts-in-.text` (RewritingContext depends on the behaviour for its epilogue) |
| 16 | C19 | fixed, 0701164 |
| 17 | C18 | fixed, 551aa96 |
| 18 | C15 | fixed, 8e4c51e |
| "also noted" | C01 | `_can_remove_block` tested `elf_dynamic_fini` twice: fixed, d4827ab, after the generator was given DT_INIT/DT_FINI blocks and C01 reproduced the AssertionError |

Found by the machinery after §5 was written (details in `known_findings.json`): C20 4bd7a09, C02 bbbe5d4, C01 1d7a580,
C03 f726253, C10 4d21752, C11 7fecb12, C12 39c6e81 (all fixed); C01 insert at the end of a wholly deleted block, C02
two label findings, C03 three return-edge findings, C12 MIPS `b` pseudo and empty `.ascii` before a label (recorded).
The remaining "also noted" items of §5 (`reads_registers ∩ clobbers_registers`, x86 `align_stack` without
`clobbers_flags`, `_ExprEncoder.decode` overrun on malformed input) are outside the wording of the properties
and are not claimed either way.

### 9.3 How a check decides, as built

`./check <ID>`: (1) `harness/extract.py` regenerates `lean/GtirbVerif/Gen/*.lean` from /repo's working tree (tables
of the DWARF encoders, ABI register files, calling conventions - the parts of the model that are data); (2) `lake
build` of the driver and of `Props/<ID>`; a build failure that comes from a regenerated table is a broken proof
obligation, any other build failure is an infrastructure error (exit 2); (3) the forbidden-token scan and `#print
axioms` for every theorem of `Props/<ID>.lean` - anything beyond `propext`, `Classical.choice`, `Quot.sound` fails
the check; (4) the runner: real code against the compiled model (disagreement = broken correspondence) and against
the executable specification / direct oracle (a failing case = violation with that case as replay). A broken
proof or correspondence for which the oracle found no failing input is reported as `VIOLATION ...
no-failing-input-found`, with the theorem or the disagreeing case named in the replay file. Known findings are
matched by signature; a violation whose signature is not listed exits 1.

### 9.4 Where the built machinery differs from §§2-8

* File names: the correspondence runners are `harness/props/cNN.py` (one per property, each with `GEN`, `SOURCES`,
  `RULE`, `ASSUMPTIONS`, `TRUSTED`, `run`, `replay`), the canonical dumps are `harness/irdump.py`, the shared
  engines `harness/emodify.py` + `harness/listing_engine.py` (E-modify) and `harness/asm_engine.py` (E-asm); there is
  no `corr_*.py` / `canon.py`.
* Not built: the recording pytest plugin that would replay the repo's own suite through the models; automatic
  shrinking of failing cases (replays are the generated case as it failed; the minimal witnesses in
  `corpus/` and `known_findings.json` were minimised by hand); line-coverage measurement of the modelled files
  (the evidence reports the input distribution - sizes, operation kinds, refusal classes, configurations - but not
  Python line coverage).
* Built as designed: translator, `lake build`, forbidden-token scan, `#print axioms` audit on every run,
  `leanchecker` in the thorough tier, failing-input search with a larger budget and other seeds when a proof or the
  correspondence breaks, `no-failing-input-found` verdicts, known-finding signatures, exit 2 for infrastructure
  errors (including a runner that could not build or run some of its own cases).
* No source hook was needed: `MANIFEST.hooks` is empty, all observation points are wrapped from the harness
  (`gtirb_rewriting.rewriting.insert/delete`, the `_Streamer` / `_SymbolCreator` methods, `make_return_cache`).
* E-modify is x86-64 only (ELF, and PE for the module-level tables); the assembler engine covers x86-64 (AT&T and
  Intel), IA32, ARM64 and MIPS32, ELF and PE; the ABI engine covers all five registered ABIs; the DWARF engine both
  byte orders and pointer sizes.

### 9.5 Seeded changes

Three rounds, 180 changes in all, were written by sub-agents - one agent per property and round. Each agent saw only
the property's text (statement, quantifier, code anchors) and a scratch git worktree of /repo, never /verif. Each
change passes the repo's suite (331 tests) and comes with a demonstration script that exits 1 on the changed tree and
0 on the unchanged one (both verified again here). Every change was applied to /repo's working tree, the property's
quick check was run, and the change was reverted (`harness/seeded_eval.py` repeats this; nothing was ever committed
to /repo). They are kept under `seeded/<id>/mK` (round 1), `seeded/<id>/r2mK` (round 2) and `seeded/<id>/r3mK`
(round 3) with `patch.diff`, `demo.py` and `meta.json`; `meta.json.history` records the verdict of every evaluation.

* Round 1, first evaluation: 38 of 60 caught with a failing input, 3 caught only as a broken correspondence
  (`no-failing-input-found`), 19 missed. Round 2 (after the round-1 strengthening), first evaluation: 43 of 60 caught
  with a failing input, 1 only as a broken correspondence, 16 missed. Round 3 (agents told that the obvious
  one-line changes had been tried): 50 of 60 caught with a failing input at the first evaluation, 10 missed.
* Detection must not hang on a lucky seed: the whole set was also run with `VERIF_SEED=1` (the seed of `vp check`);
  the two changes that were caught with one seed and missed with another got a deterministic or targeted
  generator (C06 entry in front of foreign code, C14 nested expressions of 128 bytes or more).
* Every miss was traced to the reason the check could not see the change, and the check - never the property - was
  changed. The recurring reasons were: (a) generator blind spots - tables always filled in ascending offset order,
  no scope-wide registrations mixed with `insert_at`, no module-level tables (PE safe-SEH, DT_INIT/DT_FINI), no
  `register_insert_function`, no zero-sized blocks in the input, no second section or byte interval, no
  partly-initialized intervals, no overlapping blocks, no blocks that start behind uncovered bytes, function names
  that are not regular-expression look-alikes, no operands with both an addend and a target-specific variant, no
  memory-indirect jumps, no patch constraints, no suffixes in the assembler runs; (b) oracles that took a value from
  the code under test where the property gives it independently - the set of registers to restore (C16), the
  patch's own expressions (C04), which recorded operation belongs to which request (C01), attribute conversion and
  edge retargeting (C18), untouched expressions (C19); (c) a domain predicate that was too coarse (C03/C09 judged
  "code runs off the end" per request instead of on the final state of the block).
* After the strengthening all 180 are caught with a failing input; the per-property lists above show each change and
  both verdicts. What the strengthened checks (and two side remarks of seeding agents, reproduced before anything
  was done about them) found on the *unchanged* tree is in `known_findings.json`: the DT_INIT typo in
  `_can_remove_block` (repaired, d4827ab); a label at the end of a patch moved behind the bytes that follow the
  insertion point (repaired in `are_joinable`, efbce7a - the hypothesis `join_moves_no_symbol` needed was exactly
  this input); a patch calling one function twice got one return edge (repaired, 190d75d); the missing fallthrough
  edge when a batch removes a block's terminator - or appends code that does not end in one - and then inserts code
  at that same end (recorded, C03). A false alarm of C11 on the unchanged tree (unlaid-out modules with several
  sections: patch ids follow the section order `gtirb_layout` happens to choose) was found by the clean-tree sweep
  under `VERIF_SEED=1` and removed by keeping that variation to one section; a false alarm of C03's specification
  (a return edge to the proxy that replaced a proxy-deleted return site) was found by the thorough tier and the
  specification corrected. One specification clause was relaxed with the reason stated in the runner's
  ASSUMPTIONS (C05: a patch's branch-target label at the very end of its byte interval has to stay on a zero-sized
  block; C08: an insertion exactly at a `.cfi_startproc` that is keyed to the end of the preceding block is not
  judged for coverage).
"""

BEGIN = "<!-- BEGIN AS-BUILT (generated by harness/design_gen.py; edit the sources, not this part) -->"
END = "<!-- END AS-BUILT -->"


def props_header(pid):
    p = os.path.join(ROOT, "lean", "GtirbVerif", "Props", pid + ".lean")
    if not os.path.exists(p):
        return ""
    s = open(p).read()
    m = re.search(r"/-!\n(.*?)\n-/", s, re.S)
    return m.group(1).strip() if m else ""


def theorem_names(pid):
    p = os.path.join(ROOT, "lean", "GtirbVerif", "Props", pid + ".lean")
    if not os.path.exists(p):
        return []
    return re.findall(r"^theorem\s+([A-Za-z0-9_.']+)", open(p).read(), re.M)


def main():
    props = [json.loads(l) for l in open(os.path.join(ROOT, "properties.jsonl"))]
    kf = json.load(open(os.path.join(ROOT, "known_findings.json")))
    out = [BEGIN, "", "## 9. As built", "",
           "This part is regenerated from the tree. §§1–8 above are the design written before the code; where the two "
           "differ, this part says what exists. Every property is claimed; `not_applicable` is empty.", ""]
    out += ["### 9.1 Per property", ""]
    for p in props:
        pid = p["id"]
        out.append('<a id="%s"></a>' % pid.lower())
        out.append("#### %s — %s" % (pid, p["title"]))
        out.append("")
        hdr = props_header(pid)
        if hdr:
            hdr = re.sub(r"^# .*\n", "", hdr).strip()
            out.append(hdr)
            out.append("")
        names = theorem_names(pid)
        if names:
            out.append("Theorems audited by `#print axioms` on every run (%d): %s." % (len(names), ", ".join("`%s`" % n for n in names)))
            out.append("")
        try:
            mod = importlib.import_module("props." + pid.lower())
        except Exception as e:  # noqa: BLE001
            mod = None
            out.append("(runner not importable here: %s)" % e)
        if mod is not None:
            out.append("**What a run explores.** " + getattr(mod, "RULE", ""))
            out.append("")
            if getattr(mod, "ASSUMPTIONS", None):
                out.append("**Relaxations and provisos of the check** (each one is a place where the check demands less than a naive reading, and why):")
                for a in mod.ASSUMPTIONS:
                    out.append("- " + a)
                out.append("")
            if getattr(mod, "TRUSTED", None):
                out.append("**Trusted for this property, beyond §7:** " + "; ".join(mod.TRUSTED) + ".")
                out.append("")
        mine = [f for f in kf["findings"] if f["property"] == pid]
        if mine:
            out.append("**Known findings (recorded, not repaired):**")
            for f in mine:
                out.append("- `%s` — %s" % (f["sig"], f["what"]))
            out.append("")
        fixed = [f for f in kf["fixed"] if ("property=%s " % pid) in f]
        if fixed:
            out.append("**Repaired in /repo (`fix:` commits):**")
            for f in fixed:
                out.append("- " + f[len("fixed: "):])
            out.append("")
        sd = os.path.join(ROOT, "seeded", pid)
        if os.path.isdir(sd):
            rows = []
            for k in sorted(os.listdir(sd)):
                mp = os.path.join(sd, k, "meta.json")
                if os.path.exists(mp):
                    m = json.load(open(mp))
                    rows.append("- `seeded/%s/%s` — %s → %s" % (pid, k, m.get("summary", ""), m.get("result", "not evaluated")))
            if rows:
                out.append("**Seeded changes (written by sub-agents that saw only the property text):**")
                out += rows
                out.append("")
    out.append(STATIC)
    out.append(END)
    text = "\n".join(out) + "\n"
    path = os.path.join(ROOT, "DESIGN.md")
    s = open(path).read()
    if BEGIN in s:
        s = s[:s.index(BEGIN)] + text + s[s.index(END) + len(END):].lstrip("\n")
    else:
        i = s.index("## Appendix A")
        s = s[:i] + text + "\n---------------------------------------------------------------------------\n\n" + s[i:]
    open(path, "w").write(s)
    print("DESIGN.md: as-built part regenerated (%d lines)" % len(out))


if __name__ == "__main__":
    main()
